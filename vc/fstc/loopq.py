"""Certified loop quotient for finite-control scanning loops (DESIGN.md 4.2), used for `q_split` and `Contentline.parts`.

A loop  `for i, ch in enumerate(st): BODY`  whose body only updates booleans, small counters and "remember this index"
variables and appends slices `st[a:b]` taken at remembered indexes is turned into a finite transducer as follows:

 1. BODY (the real AST) is executed ONCE, fully symbolically, by the pyvc engine: i, the index variables, the counters
    and `length` are unconstrained integers, `ch` a symbolic one-character string, the flags symbolic booleans.  Slices
    are kept as tokens (lower, upper).  This yields ALL paths of the body with their exact path conditions and effects.
 2. certificate: every atom of every path condition must be an *abstract predicate* (a comparison of `ch` with a
    constant, the truth of a flag / index variable, `counter == const`, `i + 1 == length`, `i == 0`), and every effect
    must be of a canonical form (flag := not flag, index := i, cursor := i + 1, counter += 1, append st[cursor:i],
    append st[cursor:], break).  If so, the body's behaviour depends on the concrete state only through the abstract
    state, i.e. the quotient is exact.  Otherwise: Outside (undecided, never a violation).
 3. the transition of an abstract state on a character class is obtained by asking z3 which path condition holds.
The resulting machine is additionally compared with the real function on all short strings by the callers.
"""
from __future__ import annotations

import ast
import itertools

import z3

from vc.pyvc import engine as E
from vc.pyvc import source
from vc.fstc.extract import Outside
from vc.fstc import fst as F


class VSlice(E.V):
    def __init__(self, base, lo, hi):
        self.base, self.lo, self.hi = base, lo, hi      # lo/hi: z3 Int or None


class BodyEngine(E.Engine):
    """pyvc engine + slice tokens + enumerate-free body execution"""

    def ev_Subscript(self, e, st):
        if isinstance(e.slice, ast.Slice) and e.slice.step is None:
            parts = []
            exprs = [x for x in (e.value, e.slice.lower, e.slice.upper) if x is not None]
            out = []
            for s, vals in self.ev_seq(exprs, st):
                if isinstance(vals, E.VExc):
                    out.append((s, vals))
                    continue
                it = iter(vals)
                base = next(it)
                lo = next(it) if e.slice.lower is not None else None
                hi = next(it) if e.slice.upper is not None else None
                for b in (lo, hi):
                    if b is not None and not isinstance(self.unbox_known(b, s), E.VInt):
                        raise E.Undecided("slice bound is not an int")
                out.append((s, VSlice(base, None if lo is None else self.unbox_known(lo, s).z,
                                      None if hi is None else self.unbox_known(hi, s).z)))
            return out
        return super().ev_Subscript(e, st)

    def truth(self, v, st):
        if isinstance(v, E.VRef) and st.ghost.get(("optint", str(v.z))):
            # an index variable: None or an int
            return z3.And(v.z != E.NONE, E.int_of(v.z) != 0)
        return super().truth(v, st)


def atoms(f, out=None):
    out = [] if out is None else out
    if z3.is_and(f) or z3.is_or(f) or z3.is_not(f) or (z3.is_app(f) and f.decl().kind() in (z3.Z3_OP_IMPLIES, z3.Z3_OP_ITE) and f.sort() == z3.BoolSort()):
        for c in f.children():
            atoms(c, out)
    else:
        out.append(f)
    return out


class ScanLoop:
    """symbolic paths of the body of `for i, ch in enumerate(st)` inside function `qual` of module `modname`"""

    def __init__(self, modname, qual, flags=(), indexes=(), counters=(), cursors=(), consts=None, extra_env=None):
        self.mod = source.module(modname)
        fn = self.mod.lookup(qual)
        if not isinstance(fn, ast.FunctionDef):
            raise Outside(f"{qual} not found")
        self.fn = fn
        loops = [n for n in ast.walk(fn) if isinstance(n, ast.For)]
        loops = [l for l in loops if isinstance(l.iter, ast.Call) and isinstance(l.iter.func, ast.Name) and l.iter.func.id == "enumerate"]
        if len(loops) != 1:
            raise Outside(f"{qual}: expected exactly one `for i, ch in enumerate(...)` loop")
        self.loop = loops[0]
        t = self.loop.target
        if not (isinstance(t, ast.Tuple) and len(t.elts) == 2 and all(isinstance(x, ast.Name) for x in t.elts)):
            raise Outside("loop target is not (i, ch)")
        self.ivar, self.chvar = t.elts[0].id, t.elts[1].id
        self.stvar = ast.unparse(self.loop.iter.args[0])
        if self.loop.orelse:
            raise Outside("loop has an else clause")
        self.flags, self.indexes, self.counters, self.cursors = list(flags), list(indexes), list(counters), list(cursors)
        self.consts = dict(consts or {})
        assigned = {x.id for n in ast.walk(self.loop) for x in
                    (n.targets if isinstance(n, ast.Assign) else [n.target] if isinstance(n, ast.AugAssign) else [])
                    if isinstance(x, ast.Name)}
        unknown = assigned - set(self.flags) - set(self.indexes) - set(self.counters) - set(self.cursors)
        if unknown:
            raise Outside(f"loop assigns variables outside the declared state: {sorted(unknown)}")
        self.run()

    def run(self):
        lat = E.Lattice()
        eng = BodyEngine(lat, {}, prune=True)
        st = E.State()
        self.z = {}
        env = {}
        i = z3.Int("i")
        ch = z3.String("ch")
        length = z3.Int("length")
        st.assume(i >= 0, z3.Length(ch) == 1, length > i)
        env[self.ivar] = E.VInt(i)
        env[self.chvar] = E.VStr(ch)
        env[self.stvar] = E.VStr(z3.String("st"))
        env["length"] = E.VInt(length)
        for f in self.flags:
            b = z3.Bool(f)
            self.z[f] = b
            env[f] = E.VBool(b)
        for x in self.indexes:
            r = z3.Const(x, E.Ref)       # None or an int <= i
            self.z[x] = r
            st.ghost[("optint", str(r))] = True
            st.assume(z3.Or(r == E.NONE, z3.And(E.cls_of(r) == lat.id("int"), E.int_of(r) >= 0, E.int_of(r) <= i)))
            env[x] = E.VRef(r)
        for c in self.counters:
            v = z3.Int(c)
            self.z[c] = v
            st.assume(v >= 0)
            env[c] = E.VInt(v)
        for c in self.cursors:
            v = z3.Int(c)
            self.z[c] = v
            st.assume(v >= 0, v <= i)
            env[c] = E.VInt(v)
        for k, v in self.consts.items():
            env[k] = E.VStr(z3.StringVal(v)) if isinstance(v, str) else E.VInt(z3.IntVal(v))
        self.result_addr = st.alloc(E.ListObj([]))
        env["result"] = E.VList(self.result_addr)
        self.i, self.ch, self.length = i, ch, length
        self.eng = eng
        st.env = env
        try:
            res = eng.exec_block(self.loop.body, st)
        except E.Undecided as u:
            raise Outside(f"loop body outside the pyvc subset: {u}")
        self.paths = []
        for s, sig in res:
            if sig is not None and sig[0] not in ("break", "continue"):
                raise Outside(f"loop body can {sig[0]}")
            self.paths.append((s, sig))
        self.certify()

    def certify(self):
        """every atom of every path condition is an abstract predicate; every effect is canonical"""
        i, ch, length = self.i, self.ch, self.length
        allowed_terms = {str(i), str(ch), str(length)} | {str(v) for v in self.z.values()}
        for s, sig in self.paths:
            for f in s.pc:
                for a in atoms(z3.simplify(f)):
                    self.check_atom(a)
        self.effects = []
        for s, sig in self.paths:
            eff = {"break": sig is not None and sig[0] == "break", "appends": [], "set": {}}
            for item in s.heap[self.result_addr].items:
                if not isinstance(item, VSlice):
                    raise Outside("appends something that is not a slice of the scanned string")
                eff["appends"].append((item.lo, item.hi))
            for f in self.flags:
                v = s.env[f]
                vz = self.eng.truth(v, s)
                eff["set"][f] = z3.simplify(vz)
            for x in self.indexes:
                v = self.eng.unbox_known(s.env[x], s)
                if isinstance(v, E.VInt):
                    d = z3.simplify(v.z - i)
                    if not z3.is_int_value(d):
                        raise Outside(f"{x} is assigned something other than i + constant")
                    eff["set"][x] = ("i+", d.as_long())
                elif isinstance(v, E.VRef) and z3.eq(v.z, self.z[x]):
                    eff["set"][x] = "same"
                else:
                    raise Outside(f"{x} is assigned an unsupported value")
            for c in self.cursors:
                v = self.eng.unbox_known(s.env[c], s)
                if z3.eq(z3.simplify(v.z), self.z[c]):
                    eff["set"][c] = "same"
                else:
                    d = z3.simplify(v.z - i)
                    if not z3.is_int_value(d):
                        raise Outside(f"cursor {c} is assigned something other than i + constant")
                    eff["set"][c] = ("i+", d.as_long())
            for c in self.counters:
                v = self.eng.unbox_known(s.env[c], s)
                d = z3.simplify(v.z - self.z[c])
                if not z3.is_int_value(d):
                    raise Outside(f"counter {c} is not updated by a constant")
                eff["set"][c] = d.as_long()
            self.effects.append(eff)

    def check_atom(self, a):
        """abstract predicates only"""
        a = z3.simplify(a)
        s = str(a)
        if z3.is_true(a) or z3.is_false(a):
            return
        names = set()

        def collect(t):
            if z3.is_const(t) and t.decl().kind() == z3.Z3_OP_UNINTERPRETED:
                names.add(str(t))
            for c in t.children():
                collect(c)
        collect(a)
        names -= {"PyNone"}
        # allowed shapes: over ch only; over a flag only; over one index var only (None / zero test); counter vs const;
        # i + 1 == length ; i == 0 ; facts about the initial assumptions (i >= 0, ...)
        if names <= {"ch"}:
            return
        if len(names) == 1 and (names <= set(self.flags) or names <= set(self.indexes) or names <= set(self.counters)):
            return
        if names <= {"i", "length"}:
            return
        if len(names - {"i"}) == 1 and (names - {"i"}) <= set(self.cursors):
            return            # only the standing assumption 0 <= cursor <= i
        if len(names - {"i"}) == 1 and (names - {"i"}) <= set(self.indexes) and s.replace(" ", "") in (
                f"int_of({list(names - {'i'})[0]})<=i", f"i>=int_of({list(names - {'i'})[0]})"):
            return            # the standing assumption index <= i
        if names <= {"i"}:
            return
        raise Outside(f"path condition atom outside the abstraction: {s[:120]}")

    # -- abstract transitions -------------------------------------------------------------------------
    def transition(self, flags: dict, index_set: dict, counters: dict, char: str, first: bool, last: bool):
        """Which path does the body take in this abstract state?  index_set[x] in {False (None or 0), True (> 0)}."""
        hyps = [self.ch == z3.StringVal(char), (self.i == 0) == first, (self.i + 1 == self.length) == last]
        for f, v in flags.items():
            hyps.append(self.z[f] == v)
        for x, v in index_set.items():
            r = self.z[x]
            hyps.append(z3.And(r != E.NONE, E.int_of(r) > 0) if v else z3.Or(r == E.NONE, E.int_of(r) == 0))
        for c, v in counters.items():
            hyps.append(self.z[c] == v)
        taken = []
        for k, (s, sig) in enumerate(self.paths):
            sol = z3.Solver()
            sol.set("timeout", 5000)
            sol.add(*[a for a in self.eng.axioms if not z3.is_quantifier(a)])
            sol.add(*hyps)
            sol.add(*s.pc)
            r = sol.check()
            if r == z3.sat:
                taken.append(k)
            elif r != z3.unsat:
                raise Outside("solver could not evaluate a path condition")
        if len(taken) != 1:
            raise Outside(f"abstract state does not determine the path ({len(taken)} feasible paths)")
        return taken[0]


def eval_flag(L, expr, flags: dict) -> bool:
    """value of a flag's new-value expression in the abstract state"""
    sub = [(L.z[f], z3.BoolVal(v)) for f, v in flags.items()]
    r = z3.simplify(z3.substitute(expr, *sub))
    if z3.is_true(r):
        return True
    if z3.is_false(r):
        return False
    raise Outside(f"flag update is not a function of the flags: {r}")


# ---------------------------------------------------------------------------------------------------
# q_split

def q_split_fst(alphabet, sep: str, maxsplit: int, marker: str):
    """Transducer of parser.q_split(st, sep, maxsplit) into the marker encoding of the resulting list
    (valid for non-empty input; q_split('') == [] is checked separately by the caller)."""
    if maxsplit == 0:
        return F.identity(alphabet), None
    L = ScanLoop("parser", "q_split", flags=["inquote"], counters=["splits"], cursors=["cursor"],
                 consts={"sep": sep, "maxsplit": maxsplit})
    # canonical effects: a cut is  append st[cursor:i]; cursor = i + 1 ; the final step is  append st[cursor:]; break
    cap = maxsplit if maxsplit > 0 else 0
    memo = {}

    def step(q, a):
        if a == marker:
            return []
        if q == "REST":
            return "REST", a
        inquote, splits = q
        key = (inquote, splits, a)
        if key not in memo:
            ks = set()
            for last in (False, True):
                for first in (False, True):
                    k = L.transition({"inquote": inquote}, {}, {"splits": splits}, a, first, last)
                    ks.add((k, last))
            memo[key] = ks
        outs = {}
        for k, last in memo[key]:
            eff = L.effects[k]
            cut = False
            final = False
            cur = "cursor"
            for lo, hi in eff["appends"]:
                if hi is not None:
                    if not (z3.eq(z3.simplify(lo), L.z["cursor"]) and z3.eq(z3.simplify(hi), L.i)):
                        raise Outside("q_split appends a slice other than st[cursor:i]")
                    if eff["set"]["cursor"] != ("i+", 1):
                        raise Outside("cut without cursor = i + 1")
                    cut = True
                else:
                    exp = L.i + 1 if cut else L.z["cursor"]
                    if not z3.eq(z3.simplify(lo), z3.simplify(exp)):
                        raise Outside("final append is not st[cursor:]")
                    final = True
            if final != eff["break"]:
                raise Outside("final append without break (or break without it)")
            if not cut and eff["set"]["cursor"] != "same":
                raise Outside("cursor moves without a cut")
            ns = min(splits + eff["set"]["splits"], cap + 1) if maxsplit > 0 else 0
            out = marker if cut else a
            if final and not last:
                outs[last] = ("REST", out)
            elif final and last:
                outs[last] = ((eval_flag(L, eff["set"]["inquote"], {"inquote": inquote}), ns), out)
            else:
                if last:
                    raise Outside("the last character does not close the list")
                outs[last] = ((eval_flag(L, eff["set"]["inquote"], {"inquote": inquote}), ns), out)
        # whether the character is the last one must not change the visible behaviour, except ending the scan
        vals = list(outs.values())
        if len({v[1] for v in vals}) != 1:
            raise Outside("behaviour depends on being the last character")
        nxt = [v for l, v in outs.items() if not l]
        return nxt[0]
    t = F.FST.from_function(alphabet, (False, 0), step, lambda q: "")
    return t, L


def q_split_spec(alphabet, sep, maxsplit, marker):
    """specification: split at separators outside double quotes, at most maxsplit times"""
    def step(q, a):
        if a == marker:
            return []
        if q == "REST":
            return "REST", a
        inq, n = q
        if a == '"':
            inq = not inq
        if not inq and a == sep:
            n2 = n + 1 if maxsplit > 0 else 0
            if maxsplit > 0 and n2 == maxsplit:
                return "REST", marker
            return (inq, n2), marker
        return (inq, n), a
    if maxsplit == 0:
        return F.identity(alphabet)
    return F.FST.from_function(alphabet, (False, 0), step, lambda q: "")


# ---------------------------------------------------------------------------------------------------
# Contentline.parts: where are name_split and value_split?

def parts_marks_fst(alphabet, m1: str, m2: str):
    """Transducer marking the scan of Contentline.parts on the (escaped) line: the character at name_split is replaced by
    m1 (followed by m2 as well when value_split falls on the same character), the character at value_split by m2.
    Also returns the ScanLoop (certificate)."""
    L = ScanLoop("parser", "Contentline.parts", flags=["in_quotes"], indexes=["name_split", "value_split"])
    memo = {}

    def step(q, a):
        inq, ns, vs, first = q
        if a in (m1, m2):
            return []
        key = (inq, ns, vs, first, a)
        if key not in memo:
            ks = {L.transition({"in_quotes": inq}, {"name_split": ns, "value_split": vs}, {}, a, first, last) for last in (False, True)}
            if len(ks) != 1:
                raise Outside("parts: behaviour depends on being the last character")
            memo[key] = ks.pop()
        eff = L.effects[memo[key]]
        if eff["appends"] or eff["break"]:
            raise Outside("parts loop appends or breaks")
        out = ""
        ns2, vs2 = ns, vs
        if eff["set"]["name_split"] != "same":
            if eff["set"]["name_split"] != ("i+", 0):
                raise Outside("name_split is not set to i")
            # the assignment is visible only when i > 0 (an index 0 is falsy and will be overwritten / rejected later)
            if not first:
                ns2 = True
                out += m1
        if eff["set"]["value_split"] != "same":
            if eff["set"]["value_split"] != ("i+", 0):
                raise Outside("value_split is not set to i")
            if not first:
                vs2 = True
                out += m2
        if not out:
            out = a
        elif first:
            out = a
        return (eval_flag(L, eff["set"]["in_quotes"], {"in_quotes": inq}), ns2, vs2, False), out
    t = F.FST.from_function(alphabet, (False, False, False, True), step, lambda q: "")
    return t, L
