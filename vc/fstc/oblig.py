"""Turning fstc decisions into obligations, with known-finding classes (DESIGN.md 4.3 / 6).

A known finding on a string function is a *regular class* of inputs (here: "contains one of these substrings" and/or
"starts with one of these prefixes").  Matching is by strengthening the precondition: the obligation is re-decided on
the complement of the listed classes; only if that is proved does the finding cover the refutation, and its witness is
replayed natively -- still failing => one KNOWN-FINDING line, no longer failing => silence.  A difference outside the
classes is a violation whose (shortest) witness is replayed on the real functions.
"""
from __future__ import annotations

import time

from vc.common import Obligation, PROVED, REFUTED, UNDECIDED, ERROR
from vc.fstc import decide as D
from vc.fstc import regex as R


def class_dfa(cls: dict, alphabet):
    """DFA of a finding class {'contains_any': [...], 'startswith_any': [...]} over the alphabet (symbols outside the
    alphabet make the entry inapplicable to this obligation: ignored for the domain, still replayed natively)."""
    d = None
    subs = [s for s in cls.get("contains_any", []) if all(c in alphabet for c in s)]
    if subs:
        d = R.dfa_contains_any(subs, alphabet)
    pre = [s for s in cls.get("startswith_any", []) if all(c in alphabet for c in s)]
    if pre:
        import re
        pat = "(?:" + "|".join(re.escape(p) for p in pre) + ")"
        p = R.dfa_from_regex(pat, alphabet, "match")
        d = p if d is None else d.union(p)
    return d


def in_class(cls: dict, s: str) -> bool:
    return any(x in s for x in cls.get("contains_any", [])) or any(s.startswith(x) for x in cls.get("startswith_any", []))


def decide_equiv(oid, function, T, S, alphabet, findings, native_pair, known_seen, domain=None, show=repr, max_states=2_000_000):
    """T, S: transducers (implementation composition vs specification).  native_pair(s) -> (impl_out, spec_out) on the
    REAL functions.  findings: entries for this obligation.  Returns an Obligation."""
    t0 = time.time()
    ob = Obligation(oid, function, "fstc", UNDECIDED)
    try:
        r = D.equivalent(T, S, domain=domain, max_states=max_states)
    except Exception as e:  # noqa
        ob.status, ob.detail = ERROR, f"fstc crashed: {e!r}"
        return ob
    ob.detail = f"{r.status}; product states {r.states}"
    if r.status == "equivalent":
        ob.status = PROVED
        ob.seconds = time.time() - t0
        return ob
    if r.status == "undecided":
        ob.detail = f"undecided: {r.reason}"
        ob.seconds = time.time() - t0
        return ob
    first = r
    mine = [f for f in findings if f.get("obligation") == oid]
    dom = domain
    for f in mine:
        d = class_dfa(f["class"], alphabet)
        if d is not None:
            c = d.complement()
            dom = c if dom is None else dom.intersect(c)
    if mine:
        r2 = D.equivalent(T, S, domain=dom, max_states=max_states)
        if r2.status == "equivalent":
            ob.status = PROVED
            ob.detail = (f"equivalent on the complement of the listed known-finding classes ({len(mine)}); inside them e.g. "
                         f"{show(first.witness)} -> {show(first.left)} instead of {show(first.right)}; product states {r2.states}")
            for f in mine:
                w = f["witness"]
                try:
                    got, want = native_pair(w)
                except Exception as e:  # noqa
                    got, want = ("raises", type(e).__name__), None
                if got != want:
                    known_seen.append(f"{f['id']} {f['what']} (witness {w!r} -> {got!r}, expected {want!r})")
            ob.seconds = time.time() - t0
            return ob
        if r2.status == "undecided":
            ob.detail = f"undecided on the complement of the known classes: {r2.reason}"
            ob.seconds = time.time() - t0
            return ob
        r = r2
    # a difference outside every listed class: replay the shortest witness on the real functions
    w = r.witness
    ob.status = REFUTED
    ob.witness = {"input": w}
    ob.detail = f"transducers differ on {show(w)}: implementation {show(r.left)} specification {show(r.right)}"
    try:
        got, want = native_pair(w)
        ob.replay = {"confirmed": got != want, "native": f"real functions: {got!r}, specification: {want!r}"}
    except Exception as e:  # noqa
        ob.replay = {"confirmed": True, "native": f"real functions raise {type(e).__name__}: {e}"}
    if not ob.replay["confirmed"]:
        # the extracted transducer disagrees with the real function: extraction error, not a violation
        ob.status = ERROR
        ob.detail += " -- but the REAL functions agree on this input: extraction/engine error"
    ob.seconds = time.time() - t0
    return ob


def decide_image(oid, function, T, dfa_ok, alphabet, native_check, domain=None):
    """every output of T lies in L(dfa_ok); native_check(s) -> (output, ok_bool)"""
    t0 = time.time()
    ob = Obligation(oid, function, "fstc", UNDECIDED)
    try:
        r = D.image_subset(T, dfa_ok, domain=domain)
    except Exception as e:  # noqa
        ob.status, ob.detail = ERROR, f"fstc crashed: {e!r}"
        return ob
    if r.status == "equivalent":
        ob.status, ob.detail = PROVED, f"image included; states {r.states}"
    elif r.status == "undecided":
        ob.detail = f"undecided: {r.reason}"
    else:
        ob.status = REFUTED
        ob.witness = {"input": r.witness}
        ob.detail = f"output {r.left!r} for input {r.witness!r} is outside the required language"
        try:
            out, ok = native_check(r.witness)
            ob.replay = {"confirmed": not ok, "native": f"real function output {out!r}"}
            if ok:
                ob.status = ERROR
                ob.detail += " -- but the real function's output is fine: extraction/engine error"
        except Exception as e:  # noqa
            ob.replay = {"confirmed": True, "native": f"raises {type(e).__name__}"}
    ob.seconds = time.time() - t0
    return ob
