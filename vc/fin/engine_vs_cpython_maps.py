"""Translation validation of the executor on CONCRETE maps: every key-taking CaselessDict method, executed symbolically on a
concrete initial content with a concrete key, must have exactly one feasible path whose exit kind, result and final content are
what the real CaselessDict gives.  A disagreement is a checker error (exit 3)."""
import itertools
import time

import z3

from vc.pyvc import engine as E
from vc.pyvc import source


def run(make_engine, key_methods, seed=0):
    from icalendar.caselessdict import CaselessDict
    t0 = time.time()
    eng = make_engine()
    bad = []
    cases = 0
    contents = [[], [("A", 1)], [("A", 1), ("B", 2)], [("B", 2), ("A", 1)]]
    keys = ["a", "A", "b", "c", "B"]
    for mname, (params, _ref) in key_methods.items():
        mod, node = source.find(f"caselessdict:CaselessDict.{mname}")
        if node is None:
            continue
        for content in contents:
            for key in keys:
                cases += 1
                st = E.State()
                arr = z3.K(E.S, E.OptRef.none)
                rank = z3.K(E.S, z3.IntVal(0))
                for i, (k, v) in enumerate(content):
                    arr = z3.Store(arr, z3.StringVal(k), E.OptRef.some(eng.box(E.VInt(z3.IntVal(v)), st)))      # (box adds the ground boxing facts)
                    rank = z3.Store(rank, z3.StringVal(k), z3.IntVal(i))
                    st.assume(E.up(z3.StringVal(k)) == z3.StringVal(k))
                m = E.MapObj(arr, rank, z3.IntVal(len(content)))
                addr = st.alloc(m)
                env = {"self": E.VMap(addr), "key": E.VStr(z3.StringVal(key))}
                st.assume(E.up(z3.StringVal(key)) == z3.StringVal(key.upper()), E.tu(z3.StringVal(key)) == z3.StringVal(key),
                          E.up(E.tu(z3.StringVal(key))) == z3.StringVal(key.upper()))
                extra = {}
                for p in params[1:]:
                    extra[p] = 99
                    env[p] = E.VInt(z3.IntVal(99))
                    eng.box(env[p], st)
                # real
                real = CaselessDict(content)
                try:
                    rv = getattr(real, mname)(key, *[extra[p] for p in params[1:]])
                    rkind = "ret"
                except Exception as e:  # noqa
                    rv, rkind = type(e).__name__, "raise"
                res = []
                for pa in eng.run(node, env, st):
                    if pa.kind == "undecided":
                        bad.append((mname, content, key, f"undecided: {pa.value}"))
                        res = None
                        break
                    s = z3.Solver()
                    s.set("timeout", 5000)
                    s.add(*[a for a in eng.axioms if not z3.is_quantifier(a)])
                    s.add(*pa.state.pc)
                    if s.check() == z3.sat:
                        res.append((pa, s.model()))
                if res is None:
                    continue
                if len(res) != 1:
                    bad.append((mname, content, key, f"{len(res)} feasible paths"))
                    continue
                pa, model = res[0]
                if pa.kind != rkind or (rkind == "raise" and pa.value.cls != rv):
                    bad.append((mname, content, key, f"engine {pa.kind} {getattr(pa.value, 'cls', '')}, CPython {rkind} {rv}"))
                    continue
                if rkind == "ret":
                    v = eng.unbox_known(pa.value, pa.state)
                    if isinstance(v, E.VNone):
                        got = None
                    elif isinstance(v, E.VBool):
                        got = z3.is_true(model.eval(v.z, model_completion=True))
                    elif isinstance(v, E.VInt):
                        got = model.eval(v.z, model_completion=True).as_long()
                    else:
                        r = eng.box(v, pa.state)
                        if z3.is_true(model.eval(r == E.NONE, model_completion=True)):
                            got = None
                        else:
                            got = model.eval(E.int_of(r), model_completion=True).as_long()
                    if got != rv:
                        bad.append((mname, content, key, f"engine result {got!r}, CPython {rv!r}"))
                        continue
                # final content
                fm = pa.state.heap[addr]
                for k in {"A", "B", "C"}:
                    present = z3.is_true(model.eval(z3.Select(fm.arr, z3.StringVal(k)) != E.OptRef.none, model_completion=True))
                    if present != (k in real):
                        bad.append((mname, content, key, f"key {k} present: engine {present}, CPython {k in real}"))
                        break
                    if present:
                        val = model.eval(E.int_of(E.OptRef.val(z3.Select(fm.arr, z3.StringVal(k)))), model_completion=True).as_long()
                        if val != real[k]:
                            bad.append((mname, content, key, f"value of {k}: engine {val}, CPython {real[k]}"))
                            break
    return {"name": "executor on concrete maps vs CPython (every key-taking CaselessDict method)", "cases": cases, "ok": not bad,
            "failures": [repr(b)[:200] for b in bad[:5]], "seconds": round(time.time() - t0, 2)}
