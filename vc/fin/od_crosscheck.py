"""Cross-check of the ASSUMED OrderedDict contracts (contracts/od.py) against CPython's OrderedDict.

The symbolic primitives are run on *concrete* views (store chains over constant keys); z3.simplify must reduce every
branch condition to true/false, exactly one branch must be taken, and result / contents / key order must equal what
collections.OrderedDict does.  Random operation sequences (seeded) over a 3-key universe, plus all single steps.
A disagreement makes the calling check exit 3 (checker error), never 1.
"""
import itertools
import random
import time
from collections import OrderedDict

import z3

from contracts import od
from vc.pyvc import engine as E

KEYS = ["A", "B", "C"]


def concrete_view(items):
    arr = z3.K(E.S, E.OptRef.none)
    rank = z3.K(E.S, z3.IntVal(-1))
    ctr = 0
    for k, v in items:
        arr = z3.Store(arr, z3.StringVal(k), E.OptRef.some(v))
        rank = z3.Store(rank, z3.StringVal(k), z3.IntVal(ctr))
        ctr += 1
    return E.MapObj(arr, rank, z3.IntVal(ctr))


def read_view(m, vals):
    present = []
    for k in KEYS:
        e = z3.simplify(m.arr[z3.StringVal(k)])
        if not z3.eq(e, E.OptRef.none):
            v = z3.simplify(E.OptRef.val(e))
            r = z3.simplify(m.rank[z3.StringVal(k)]).as_long()
            present.append((r, k, str(v)))
    present.sort()
    return [(k, v) for _, k, v in present]


def run(seed=0, sequences=150, length=6):
    t = time.time()
    lat = E.Lattice()
    eng = E.Engine(lat, {}, prune=True)
    vals = [z3.Const(f"v{i}", E.Ref) for i in range(4)]
    rnd = random.Random(seed)
    ops = ["__getitem__", "__setitem__", "__delitem__", "__contains__", "get", "setdefault", "pop"]
    n = 0
    bad = []

    def step(real: OrderedDict, sym_items, op, k, vi, di):
        nonlocal n
        n += 1
        st = E.State()
        m = concrete_view(sym_items)
        a = st.alloc(m)
        args = [E.VMap(a), E.VStr(z3.StringVal(k))]
        if op == "__setitem__":
            args.append(E.VRef(vals[vi]))
        if op in ("get", "setdefault", "pop"):
            args.append(E.VRef(vals[di]))
        res = od.PRIMS[op](eng, st, args, {})
        taken = []
        for s, v in res:
            c = z3.simplify(z3.And(*s.pc)) if s.pc else z3.BoolVal(True)
            if z3.is_true(c):
                taken.append((s, v))
            elif not z3.is_false(c):
                bad.append((op, k, "branch condition not ground", str(c)))
        if len(taken) != 1:
            bad.append((op, k, f"{len(taken)} branches taken"))
            return sym_items
        s, v = taken[0]
        # real
        try:
            if op == "__getitem__":
                rr = ("ret", real[k])
            elif op == "__setitem__":
                real[k] = str(vals[vi]); rr = ("ret", None)
            elif op == "__delitem__":
                del real[k]; rr = ("ret", None)
            elif op == "__contains__":
                rr = ("ret", k in real)
            elif op == "get":
                rr = ("ret", real.get(k, str(vals[di])))
            elif op == "setdefault":
                rr = ("ret", real.setdefault(k, str(vals[di])))
            else:
                rr = ("ret", real.pop(k, str(vals[di])))
        except KeyError:
            rr = ("raise", "KeyError")
        if isinstance(v, E.VExc):
            sr = ("raise", v.cls)
        elif isinstance(v, E.VNone):
            sr = ("ret", None)
        elif isinstance(v, E.VBool):
            sr = ("ret", z3.is_true(z3.simplify(v.z)))
        else:
            sr = ("ret", str(z3.simplify(v.z)))
        if sr != rr:
            bad.append((op, k, "result", sr, rr))
        new_items = read_view(s.heap[a], vals)
        if new_items != list(real.items()):
            bad.append((op, k, "view", new_items, list(real.items())))
        return [(kk, next(x for x in vals if str(x) == vv)) for kk, vv in new_items]

    for _ in range(sequences):
        real = OrderedDict()
        sym = []
        for _ in range(length):
            sym = step(real, sym, rnd.choice(ops), rnd.choice(KEYS), rnd.randrange(4), rnd.randrange(4))
    return {"name": "OrderedDict primitive contracts vs CPython", "steps": n, "failures": bad[:5], "ok": not bad,
            "seconds": round(time.time() - t, 2)}


if __name__ == "__main__":
    print(run())
