"""Translation validation of the executor on concrete values: the symbolic executor, run on the real codec bodies with CONCRETE
arguments, must compute what CPython computes.  A disagreement is a checker error (exit 3): the engine misrepresents Python.

Covered: vDate / vDatetime / vTime / vUTCOffset / vDuration to_ical and from_ical (the arithmetic- and string-heavy functions of
C03): boundary values and seeded values.  For every concrete input exactly one path of the symbolic execution must be feasible
and its result, evaluated in a model, must equal the real function's result (text, or calendar fields, or exception class)."""
import random
import time
from datetime import date, datetime, time as dtime, timedelta

import z3

from contracts import dtfields as DF
from vc.pyvc import chars
from vc.pyvc import engine as E
from vc.pyvc.chars import VText, lit


def text_of(model, t):
    out = []
    for tok in t.toks:
        v = model.eval(tok[1], model_completion=True)
        if tok[0] == "c":
            out.append(chr(v.as_long()))
        elif tok[0] == "dec":
            out.append(str(v.as_long()))              # a numeral token: the decimal digits of a non-negative integer
        else:
            return None
    return "".join(out)


def run_concrete(eng, node, env, facts):
    """-> list of (kind, value, model) for the feasible paths"""
    st = E.State()
    st.assume(*facts)
    out = []
    for pa in eng.run(node, env, st):
        if pa.kind == "undecided":
            return [("undecided", pa.value, None)]
        s = z3.Solver()
        s.set("timeout", 5000)
        for a in eng.axioms:
            if not z3.is_quantifier(a):
                s.add(a)
        s.add(*pa.state.pc)
        if s.check() == z3.sat:
            out.append((pa.kind, pa.value, s.model(), pa.state))
    return out


def date_ref(eng, name, y, m, d, cls="date", hms=None, utc=False):
    r = z3.Const(name, E.Ref)
    facts = [E.cls_of(r) == eng.lat.id(cls), E.truthy(r), r != E.NONE]
    if cls in ("date", "datetime"):
        facts += [DF.F["year"](r) == y, DF.F["month"](r) == m, DF.F["day"](r) == d]
    if hms is not None:
        facts += [DF.F["hour"](r) == hms[0], DF.F["minute"](r) == hms[1], DF.F["second"](r) == hms[2]]
    facts += [DF.aware(r) == utc, DF.is_utc(r) == utc]
    return r, facts


def run(make_engine, fn, value_obj, seed=0, n=40):
    t0 = time.time()
    rnd = random.Random(seed)
    eng, classes = make_engine()
    bad = []
    cases = 0

    def enc_case(cls, field, node, ref, facts, want):
        nonlocal cases
        cases += 1
        st = E.State()
        st.assume(*facts)
        env = {"self": value_obj(eng, st, cls, field, ref)}
        res = []
        for pa in eng.run(node, env, st):
            if pa.kind == "undecided":
                bad.append((cls, "to_ical", want, f"undecided: {pa.value}"))
                return
            s = z3.Solver()
            s.set("timeout", 5000)
            s.add(*[a for a in eng.axioms if not z3.is_quantifier(a)])
            s.add(*pa.state.pc)
            if s.check() == z3.sat:
                res.append((pa, s.model()))
        if len(res) != 1:
            bad.append((cls, "to_ical", want, f"{len(res)} feasible paths"))
            return
        pa, model = res[0]
        t = pa.value if isinstance(pa.value, VText) else chars.to_text(eng, pa.value, pa.state)
        got = text_of(model, t) if pa.kind == "ret" and t is not None else f"<{pa.kind}>"
        if got != want:
            bad.append((cls, "to_ical", want, got))

    def dec_case(cls, node, text, want_fields, want_exc, extra_env=None):
        nonlocal cases
        cases += 1
        st = E.State()
        env = {"ical": lit(text)}
        env.update(extra_env or {})
        res = []
        for pa in eng.run(node, env, st):
            if pa.kind == "undecided":
                bad.append((cls, "from_ical", text, f"undecided: {pa.value}"))
                return
            s = z3.Solver()
            s.set("timeout", 5000)
            s.add(*[a for a in eng.axioms if not z3.is_quantifier(a)])
            s.add(*pa.state.pc)
            if s.check() == z3.sat:
                res.append((pa, s.model()))
        if len(res) != 1:
            bad.append((cls, "from_ical", text, f"{len(res)} feasible paths"))
            return
        pa, model = res[0]
        if want_exc is not None:
            if not (pa.kind == "raise" and pa.value.cls == want_exc):
                bad.append((cls, "from_ical", text, f"engine: {pa.kind} {getattr(pa.value, 'cls', '')}, CPython raises {want_exc}"))
            return
        if pa.kind != "ret":
            bad.append((cls, "from_ical", text, f"engine raises {pa.value.cls}, CPython returns {want_fields}"))
            return
        v = eng.unbox_known(pa.value, pa.state)
        if isinstance(v, E.VTd):
            got = {"us": model.eval(v.us, model_completion=True).as_long()}
        else:
            r = eng.box(v, pa.state)
            got = {k: model.eval(DF.F[k](r), model_completion=True).as_long() for k in want_fields}
        if got != want_fields:
            bad.append((cls, "from_ical", text, f"engine {got}, CPython {want_fields}"))
    from icalendar.prop import vDate, vDatetime, vTime, vUTCOffset, vDuration
    dates = [date(1, 1, 1), date(9999, 12, 31), date(2024, 2, 29), date(1999, 10, 5)] + \
        [date(rnd.randint(1, 9999), rnd.randint(1, 12), rnd.randint(1, 28)) for _ in range(n // 4)]
    node_e, node_d = fn(classes, eng, "vDate", "to_ical"), fn(classes, eng, "vDate", "from_ical")
    for k, d in enumerate(dates):
        r, facts = date_ref(eng, f"cd{k}", d.year, d.month, d.day)
        enc_case("vDate", "dt", node_e, E.VRef(r), facts, vDate(d).to_ical().decode())
    # (texts inside the domain of the R3 obligations: digit shapes; int() of other characters is not modelled precisely)
    for text in ["20240229", "20230229", "00010101", "99991231", "00000101", "20241301"] + \
            [f"{rnd.randint(0, 9999):04}{rnd.randint(0, 13):02}{rnd.randint(0, 32):02}" for _ in range(n // 4)]:
        try:
            v = vDate.from_ical(text)
            dec_case("vDate", node_d, text, {"year": v.year, "month": v.month, "day": v.day}, None)
        except ValueError:
            dec_case("vDate", node_d, text, None, "ValueError")
    node_e, node_d = fn(classes, eng, "vDatetime", "to_ical"), fn(classes, eng, "vDatetime", "from_ical")
    for k in range(n // 4):
        d = datetime(rnd.randint(1, 9999), rnd.randint(1, 12), rnd.randint(1, 28), rnd.randint(0, 23), rnd.randint(0, 59), rnd.randint(0, 59))
        r, facts = date_ref(eng, f"cdt{k}", d.year, d.month, d.day, "datetime", (d.hour, d.minute, d.second))
        enc_case("vDatetime", "dt", node_e, E.VRef(r), facts, vDatetime(d).to_ical().decode())
    for text in ["20240229T235959", "20240229T240000", "20240229T235960", "20240229T235959Z", "20230229T000000", "00010101T000000Z"]:
        try:
            v = vDatetime.from_ical(text)
            dec_case("vDatetime", node_d, text, {"year": v.year, "month": v.month, "day": v.day, "hour": v.hour, "minute": v.minute, "second": v.second},
                     None, {"timezone": E.VNone()})
        except ValueError:
            dec_case("vDatetime", node_d, text, None, "ValueError", {"timezone": E.VNone()})
    node_e, node_d = fn(classes, eng, "vUTCOffset", "to_ical"), fn(classes, eng, "vUTCOffset", "from_ical")
    for secs in [0, 3600, -3600, 19800, -34200, 86399, -86399, 45, -45, 3661] + [rnd.randint(-86399, 86399) for _ in range(n // 4)]:
        td = timedelta(seconds=secs)
        cases += 0
        st = E.State()
        env_obj = None
        try:
            want = vUTCOffset(td).to_ical()
        except Exception:  # noqa
            continue
        enc_case("vUTCOffset", "td", node_e, E.VTd(z3.IntVal(secs * 10 ** 6)), [], want if isinstance(want, str) else want.decode())
    for text in ["+0100", "-0500", "+053000", "-000001", "+2400", "+0160", "+0000", "-0000", "+2359", "-235959"]:
        try:
            v = vUTCOffset.from_ical(text)
            dec_case("vUTCOffset", node_d, text, {"us": int(v.total_seconds()) * 10 ** 6}, None, {"cls": E.VClass("vUTCOffset")})
        except ValueError:
            dec_case("vUTCOffset", node_d, text, None, "ValueError", {"cls": E.VClass("vUTCOffset")})
    node_e, node_d = fn(classes, eng, "vDuration", "to_ical"), fn(classes, eng, "vDuration", "from_ical")
    for secs in [0, 1, -1, 60, 3600, 86400, 604800, -604800, 90061, 1209600, 999999999] + [rnd.randint(-10 ** 8, 10 ** 8) for _ in range(n // 4)]:
        td = timedelta(seconds=secs)
        enc_case("vDuration", "td", node_e, E.VTd(z3.IntVal(secs * 10 ** 6)), [], vDuration(td).to_ical().decode())
    for text in ["P1D", "PT1H", "-P1W", "P1DT2H3M4S", "PT0S", "+PT15M", "P", "PT", "P1H", "P1W2D", "p1d"]:
        try:
            v = vDuration.from_ical(text)
            dec_case("vDuration", node_d, text, {"us": int(v.total_seconds()) * 10 ** 6}, None)
        except ValueError:
            dec_case("vDuration", node_d, text, None, "ValueError")
    return {"name": "executor on concrete values vs CPython (vDate / vDatetime / vUTCOffset / vDuration codecs)", "cases": cases, "ok": not bad,
            "failures": [repr(b)[:200] for b in bad[:5]], "seconds": round(time.time() - t0, 2)}
