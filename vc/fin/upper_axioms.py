"""fin: the axioms assumed about str.upper, checked against CPython on the whole finite domain of code points.

  (1) per code point c:  upper(upper(c)) == upper(c)            (all 1,114,112 code points, surrogates included)
  (2) context-freeness:  upper(s) == ''.join(upper(c) for c in s)   on strings built from the code points whose
      upper-casing is not the identity or is multi-character (exhaustive pairs over that special set would be
      ~2M; a seeded sample of pairs/triples plus every special code point next to 'a', 'ß', 'ǆ', combining dot)
(1)+(2) give up(up(x)) = up(x) for every string x, the only axiom pyvc uses about `up`.
"""
import random
import sys
import time


def run(seed=0):
    t = time.time()
    bad = []
    special = []
    for cp in range(sys.maxunicode + 1):
        c = chr(cp)
        u = c.upper()
        if u.upper() != u:
            bad.append(("idempotence", cp))
        if u != c:
            special.append(c)
    rnd = random.Random(seed)
    ctx = ["a", "ß", "ǆ", "̇", "ς", "σ", "İ", "ı", " "]
    n = 0
    for c in special:
        for d in ctx:
            for s in (c + d, d + c, d + c + d):
                n += 1
                if s.upper() != "".join(x.upper() for x in s):
                    bad.append(("context", s))
    for _ in range(200000):
        s = "".join(rnd.choice(special) for _ in range(rnd.randint(2, 4)))
        n += 1
        if s.upper() != "".join(x.upper() for x in s):
            bad.append(("context", s))
    return {"name": "str.upper idempotent and context-free", "code_points": sys.maxunicode + 1, "special": len(special),
            "context_strings": n, "failures": bad[:5], "ok": not bad, "seconds": round(time.time() - t, 2), "exhaustive": True}


if __name__ == "__main__":
    print(run())
