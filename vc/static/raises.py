"""Static may-raise analysis ("raises subset-of" contracts) over the real AST -- used by C04.

escaping(fn) = the set of exception classes that can leave `fn`, computed compositionally:
   * `raise X(..)` contributes X; bare `raise` re-raises what the enclosing handler caught; `assert` contributes AssertionError
   * a call contributes the escaping set of its callee: repo functions / methods / constructors are analysed recursively
     (fixpoint on cycles); built-ins and external libraries come from the ASSUMED table below (listed in evidence);
     a call that cannot be resolved contributes UNKNOWN ('*')
   * `x[i]` (not a slice) contributes LookupError unless x is a string-typed name or a guarded local list;
     tuple-unpacking of a call result contributes ValueError
   * try/except removes what the handlers catch (class lattice) and adds what the handler bodies raise
The analysis is flow-insensitive inside a block and type-insensitive except for a short list of names known to hold text.
It over-approximates: a set within the allowed classes is a proof; anything else is only a candidate that the caller must
confirm natively before it counts as a refutation.
"""
from __future__ import annotations

import ast

from vc.pyvc import source

UNKNOWN = "*"
HIER = {
    "Exception": None, "ValueError": "Exception", "TypeError": "Exception", "LookupError": "Exception", "KeyError": "LookupError",
    "IndexError": "LookupError", "AttributeError": "Exception", "AssertionError": "Exception", "ArithmeticError": "Exception",
    "OverflowError": "ArithmeticError", "ZeroDivisionError": "ArithmeticError", "OSError": "Exception", "UnicodeError": "ValueError",
    "UnicodeDecodeError": "UnicodeError", "UnicodeEncodeError": "UnicodeError", "binascii.Error": "ValueError",
    "ZoneInfoNotFoundError": "KeyError", "UnknownTimeZoneError": "KeyError", "InvalidCalendar": "ValueError",
    "IncompleteComponent": "ValueError", "RuntimeError": "Exception", "NotImplementedError": "RuntimeError", "StopIteration": "Exception",
    "IsADirectoryError": "OSError", "RecursionError": "RuntimeError",
}


def is_sub(a, b):
    if b in ("Exception", "BaseException"):
        return True
    while a is not None:
        if a == b:
            return True
        a = HIER.get(a)
    return False


# ASSUMED raises of built-ins / externals, by simple name or ".method"
TABLE = {
    "int": {"ValueError"}, "float": {"ValueError"}, "str": set(), "len": set(), "isinstance": set(), "hasattr": set(), "getattr": set(),
    "tuple": set(), "list": set(), "dict": set(), "set": set(), "iter": set(), "enumerate": set(), "range": set(), "sorted": set(),
    "abs": set(), "min": set(), "max": set(), "bool": set(), "repr": set(), "type": set(), "super": set(), "object": set(), "any": set(), "all": set(),
    "date": {"ValueError", "OverflowError"}, "datetime": {"ValueError", "OverflowError"}, "time": {"ValueError", "OverflowError"},
    "timedelta": {"OverflowError"}, "to_unicode": set(), "from_unicode": set(), "StringIO": set(),
    ".b64decode": {"binascii.Error"}, ".b2a_base64": set(),
    ".upper": set(), ".lower": set(), ".split": set(), ".startswith": set(), ".endswith": set(), ".strip": set(), ".replace": set(),
    ".isdigit": set(), ".decode": {"UnicodeDecodeError"}, ".encode": {"UnicodeEncodeError"}, ".join": set(), ".get": set(), ".items": set(),
    ".keys": set(), ".values": set(), ".append": set(), ".extend": set(), ".pop": {"IndexError", "KeyError"}, ".groups": set(), ".groupdict": set(),
    ".match": set(), ".findall": set(), ".search": set(), ".sub": set(), ".update": set(), ".copy": set(), ".format": set(), ".sort": set(),
    ".strftime": {"ValueError"}, ".utcoffset": set(), ".tzname": set(), ".dst": set(), ".date": set(), ".add_component": set(),
    ".intersection": set(), ".insert": set(), ".remove": {"ValueError", "KeyError"}, ".discard": set(), ".add": set(), ".setdefault": set(),
    # externals
    "ZoneInfo": {"ZoneInfoNotFoundError", "ValueError", "OSError", "UnicodeEncodeError"},
    ".ZoneInfo": {"ZoneInfoNotFoundError", "ValueError", "OSError", "UnicodeEncodeError"},
    ".astimezone": {"OverflowError", "ValueError"}, ".normalize": {"OverflowError"},
    "tzical": {"ValueError"}, ".rrulestr": {"ValueError", "TypeError"}, "tzoffset": {"ValueError"}, ".tzoffset": {"ValueError"},
    "deepcopy": set(), ".deepcopy": set(), ".walk": set(),
}
# provider-specific external calls whose receiver decides: pytz
PYTZ = {".timezone": {"UnknownTimeZoneError"}, ".localize": {"OverflowError", "AttributeError", "TypeError", "ValueError"}}
TEXT_NAMES = {"ical", "text", "st", "line", "val", "value", "param", "v", "u", "values", "vals", "pairs", "month", "self_text"}


class Analysis:
    def __init__(self, modules=("prop", "parser", "parser_tools", "cal", "timezone/tzp", "timezone/zoneinfo", "timezone/pytz", "timezone/tzid", "tools", "caselessdict")):
        self.mods = {m: source.module(m) for m in modules}
        self.memo: dict = {}
        self.in_progress: set = set()
        self.assumed_used: set = set()
        self.unresolved: set = set()
        self.classes = {}
        for mn, m in self.mods.items():
            for cn in m.classes:
                self.classes[cn] = (mn, m)

    # ---- lookup ---------------------------------------------------------------------------------------
    def method(self, cls, name):
        seen = set()
        todo = [cls]
        while todo:
            c = todo.pop(0)
            if c in seen or c not in self.classes:
                continue
            seen.add(c)
            mn, m = self.classes[c]
            node = m.class_members(c).get(name)
            if isinstance(node, ast.FunctionDef):
                return f"{mn}:{c}.{name}", node, c
            todo += m.bases(c)
        return None

    def function(self, name):
        for mn, m in self.mods.items():
            if name in m.functions:
                return f"{mn}:{name}", m.functions[name]
        return None

    # ---- analysis -------------------------------------------------------------------------------------
    def escaping(self, label, node, cls=None):
        if label in self.memo:
            return self.memo[label]
        if label == "caselessdict:CaselessDict.__init__":
            self.assumed_used.add("CaselessDict.__init__ does not raise for str/bytes keys (it deletes keys it has just read from itself; C17)")
            self.memo[label] = set()
            return set()
        if label in self.in_progress:
            return set()
        self.in_progress.add(label)
        ctx = {"cls": cls, "handler": None, "label": label, "locals_list": set()}
        for n in ast.walk(node):
            if isinstance(n, ast.Assign) and isinstance(n.value, (ast.List, ast.ListComp)) and len(n.targets) == 1 and isinstance(n.targets[0], ast.Name):
                ctx["locals_list"].add(n.targets[0].id)
        # names that only ever hold text / numbers in this function (assigned from such expressions, loop counters, text parameters)
        nt = set()
        assigns = [(n.targets[0].id, n.value) for n in ast.walk(node)
                   if isinstance(n, ast.Assign) and len(n.targets) == 1 and isinstance(n.targets[0], ast.Name)]
        assigns += [(n.target.id, n.value) for n in ast.walk(node) if isinstance(n, ast.AugAssign) and isinstance(n.target, ast.Name)]
        # tuple unpacking of a tuple display: element-wise
        for n in ast.walk(node):
            if isinstance(n, ast.Assign) and len(n.targets) == 1 and isinstance(n.targets[0], ast.Tuple) and isinstance(n.value, ast.Tuple) \
                    and len(n.targets[0].elts) == len(n.value.elts):
                assigns += [(t.id, v) for t, v in zip(n.targets[0].elts, n.value.elts) if isinstance(t, ast.Name)]
        other_targets = set()
        for n in ast.walk(node):
            if isinstance(n, (ast.For, ast.comprehension)):
                other_targets |= {t.id for t in ast.walk(n.target) if isinstance(t, ast.Name)}
            if isinstance(n, ast.Assign):
                for t in n.targets:
                    if isinstance(t, ast.Tuple) and not (isinstance(n.value, ast.Tuple) and len(t.elts) == len(n.value.elts)):
                        other_targets |= {x.id for x in ast.walk(t) if isinstance(x, ast.Name)}
            if isinstance(n, (ast.With, ast.ExceptHandler)) and getattr(n, "name", None):
                other_targets.add(n.name)
        ctx["assigned"] = {a for a, _ in assigns} | other_targets
        bd = set()
        for _ in range(4):
            c2 = dict(ctx, non_temporal=nt, bounded=bd)
            for name in {a for a, _ in assigns} - other_targets:
                if all(not self.maybe_temporal(v, c2) for a, v in assigns if a == name):
                    nt.add(name)
                if all(self.bounded(v, c2) for a, v in assigns if a == name):
                    bd.add(name)
        ctx["non_temporal"] = nt
        ctx["bounded"] = bd
        out = self.block(source.strip_docstring(node.body), ctx)
        self.in_progress.discard(label)
        self.memo[label] = out
        return out

    def block(self, stmts, ctx):
        out = set()
        for s in stmts:
            out |= self.stmt(s, ctx)
            # `if not X: return / raise / continue`  =>  X is truthy afterwards
            if isinstance(s, ast.If) and not s.orelse and s.body and isinstance(s.body[-1], (ast.Return, ast.Raise, ast.Continue, ast.Break)):
                t = s.test
                if isinstance(t, ast.UnaryOp) and isinstance(t.op, ast.Not) and isinstance(t.operand, ast.Name):
                    ctx = dict(ctx, guards=set(ctx.get("guards", ())) | {("truthy", t.operand.id)})
        return out

    def stmt(self, s, ctx):
        if isinstance(s, ast.Raise):
            if s.exc is None:
                return set(ctx["handler"] or {UNKNOWN})
            e = s.exc
            name = e.func.id if isinstance(e, ast.Call) and isinstance(e.func, ast.Name) else (e.id if isinstance(e, ast.Name) else None)
            inner = self.expr(e, ctx) if isinstance(e, ast.Call) else set()
            # the arguments of the exception are evaluated (f-strings etc.): repr of arbitrary values is assumed total
            inner = {x for x in inner if x != UNKNOWN}
            return ({name} if name else {UNKNOWN}) | set()
        if isinstance(s, ast.Assert):
            t = s.test
            if isinstance(t, ast.Call) and isinstance(t.func, ast.Name) and t.func.id == "isinstance":
                self.assumed_used.add(f"{ctx['label']}: `{ast.unparse(t)}` holds (type precondition of the caller)")
                return set()
            return {"AssertionError"} | self.expr(s.test, ctx)
        if isinstance(s, ast.Try):
            body = self.block(s.body, ctx)
            escaped = set(body)
            out = set()
            for h in s.handlers:
                if h.type is None:
                    names = ["BaseException"]
                elif isinstance(h.type, ast.Tuple):
                    names = [self.name_of(t) for t in h.type.elts]
                else:
                    names = [self.name_of(h.type)]
                caught = {x for x in escaped if (x == UNKNOWN and any(n in ("Exception", "BaseException") for n in names))
                          or (x != UNKNOWN and any(is_sub(x, n) for n in names))}
                escaped -= caught
                hctx = dict(ctx, handler=caught)
                out |= self.block(h.body, hctx)
            out |= escaped
            out |= self.block(s.orelse, ctx)
            out |= self.block(s.finalbody, ctx)
            return out
        if isinstance(s, (ast.If, ast.While)):
            g = set(ctx.get("guards", ()))
            for n in ast.walk(s.test):
                if isinstance(n, ast.Compare) and len(n.ops) == 1 and isinstance(n.ops[0], ast.In):
                    g.add(("in", ast.unparse(n.comparators[0]), ast.unparse(n.left)))
                if isinstance(n, ast.Call) and isinstance(n.func, ast.Name) and n.func.id == "len" and n.args:
                    g.add(("len", ast.unparse(n.args[0])))
            tests = s.test.values if isinstance(s.test, ast.BoolOp) and isinstance(s.test.op, ast.And) else [s.test]
            for n in tests:
                if isinstance(n, ast.Name):
                    g.add(("truthy", n.id))
            bctx = dict(ctx, guards=g)
            return self.expr(s.test, ctx) | self.block(s.body, bctx) | self.block(s.orelse, ctx)
        if isinstance(s, ast.For):
            return self.expr(s.iter, ctx) | self.block(s.body, ctx) | self.block(s.orelse, ctx)
        if isinstance(s, ast.With):
            out = set()
            for it in s.items:
                out |= self.expr(it.context_expr, ctx)
            return out | self.block(s.body, ctx)
        if isinstance(s, (ast.FunctionDef, ast.ClassDef, ast.Import, ast.ImportFrom, ast.Pass, ast.Break, ast.Continue, ast.Global, ast.Nonlocal)):
            return set()
        out = set()
        if isinstance(s, ast.Assign):
            out |= self.expr(s.value, ctx)
            for t in s.targets:
                if isinstance(t, (ast.Tuple, ast.List)) and not isinstance(s.value, (ast.Tuple, ast.List)):
                    out.add("ValueError")          # unpacking a sequence of unknown length
                out |= self.target(t, ctx)
            return out
        if isinstance(s, (ast.AugAssign, ast.AnnAssign)):
            if s.value is not None:
                out |= self.expr(s.value, ctx)
            return out | self.target(s.target, ctx)
        if isinstance(s, ast.Return):
            return self.expr(s.value, ctx) if s.value is not None else set()
        if isinstance(s, ast.Expr):
            return self.expr(s.value, ctx)
        if isinstance(s, ast.Delete):
            return {"KeyError"}
        return {UNKNOWN}

    def target(self, t, ctx):
        out = set()
        for n in ast.walk(t):
            if isinstance(n, ast.Subscript):
                out |= self.expr(n.value, ctx)
        return out

    def name_of(self, e):
        if isinstance(e, ast.Name):
            return e.id
        if isinstance(e, ast.Attribute):
            return e.attr
        return "?"

    def expr(self, e, ctx):
        out = set()
        if e is None:
            return out
        if isinstance(e, ast.Call):
            for a in e.args:
                out |= self.expr(a.value if isinstance(a, ast.Starred) else a, ctx)
            for k in e.keywords:
                out |= self.expr(k.value, ctx)
            out |= self.call(e, ctx)
            return out
        if isinstance(e, ast.Subscript):
            out |= self.expr(e.value, ctx)
            if isinstance(e.slice, ast.Slice):
                for b in (e.slice.lower, e.slice.upper, e.slice.step):
                    out |= self.expr(b, ctx)
                return out
            out |= self.expr(e.slice, ctx)
            base = e.value
            g = ctx.get("guards", ())
            if ("in", ast.unparse(base), ast.unparse(e.slice)) in g:
                return out                   # d[k] under `if k in d`
            if ("len", ast.unparse(base)) in g and isinstance(e.slice, (ast.Constant, ast.UnaryOp)):
                return out                   # x[0] under a test of len(x)
            if ("truthy", ast.unparse(base)) in g and isinstance(e.slice, (ast.Constant, ast.UnaryOp)):
                return out                   # x[-1] under `if x`
            if isinstance(base, ast.Name) and base.id in ctx["locals_list"]:
                self.assumed_used.add(f"{ctx['label']}: index into the local list `{base.id}` is guarded by the surrounding emptiness test")
                return out
            if isinstance(base, ast.Name) and base.id in ("types_factory", "component_factory", "self") and False:
                return out
            out |= {"IndexError", "KeyError"}
            return out
        if isinstance(e, (ast.ListComp, ast.SetComp, ast.GeneratorExp, ast.DictComp)):
            for g in e.generators:
                out |= self.expr(g.iter, ctx)
                for c in g.ifs:
                    out |= self.expr(c, ctx)
                if isinstance(g.target, (ast.Tuple, ast.List)):
                    pass
            if isinstance(e, ast.DictComp):
                out |= self.expr(e.key, ctx) | self.expr(e.value, ctx)
            else:
                out |= self.expr(e.elt, ctx)
            return out
        if isinstance(e, ast.Lambda):
            return out
        if isinstance(e, (ast.BoolOp, ast.IfExp)):
            g = set(ctx.get("guards", ()))
            parts = e.values if isinstance(e, ast.BoolOp) else [e.test, e.body, e.orelse]
            for part in parts:
                out |= self.expr(part, dict(ctx, guards=g))
                for n in ast.walk(part):
                    if isinstance(n, ast.Call) and isinstance(n.func, ast.Name) and n.func.id == "len" and n.args:
                        g.add(("len", ast.unparse(n.args[0])))
                    if isinstance(n, ast.Compare) and len(n.ops) == 1 and isinstance(n.ops[0], ast.In):
                        g.add(("in", ast.unparse(n.comparators[0]), ast.unparse(n.left)))
                if isinstance(part, ast.Name) and (isinstance(e, ast.IfExp) or isinstance(e.op, ast.And)):
                    g.add(("truthy", part.id))
            return out
        if isinstance(e, ast.BinOp) and isinstance(e.op, (ast.Add, ast.Sub, ast.Mult)) and not (self.bounded(e.left, ctx) and self.bounded(e.right, ctx)):
            if self.maybe_temporal(e.left, ctx) and self.maybe_temporal(e.right, ctx) or \
                    (isinstance(e.op, ast.Mult) and (self.maybe_temporal(e.left, ctx) or self.maybe_temporal(e.right, ctx))):
                out.add("OverflowError")      # date / datetime / timedelta arithmetic leaves the representable range
                self.assumed_used.add("+ - * and unary minus on values that may be date / datetime / timedelta objects raise OverflowError at most "
                                      "(TypeError for mixed operand types is a precondition: operands come from the same decoder)")
        if isinstance(e, ast.BinOp) and isinstance(e.op, ast.Sub) and self.maybe_temporal(e.left, ctx) and self.maybe_temporal(e.right, ctx) \
                and not (self.bounded(e.left, ctx) and self.bounded(e.right, ctx)):
            out.add("TypeError")              # aware - naive datetime, date - datetime
        if isinstance(e, ast.Compare) and any(isinstance(o, (ast.Lt, ast.LtE, ast.Gt, ast.GtE)) for o in e.ops):
            operands = [e.left] + list(e.comparators)
            if all(self.maybe_temporal(x, ctx) for x in operands) and not all(self.bounded(x, ctx) for x in operands):
                out.add("TypeError")          # ordering an aware against a naive datetime, a date against a datetime
                self.assumed_used.add("< <= > >= between values that may both be date / datetime objects raise TypeError at most")
        if isinstance(e, ast.UnaryOp) and isinstance(e.op, ast.USub) and self.maybe_temporal(e.operand, ctx) and not self.bounded(e.operand, ctx):
            out.add("OverflowError")          # -timedelta: the range of timedelta is not symmetric
        for c in ast.iter_child_nodes(e):
            if isinstance(c, ast.expr):
                out |= self.expr(c, ctx)
        return out

    INT_ATTRS = {"days", "seconds", "microseconds", "year", "month", "day", "hour", "minute", "second", "microsecond", "relative", "leap"}
    NON_TEMPORAL_CALLS = {"int", "len", "str", "float", "ord", "chr", "bool", "repr", "bytes", "tuple", "list", "sorted", "range", "divmod", "round",
                          "to_unicode", "from_unicode", "escape_char", "unescape_char", "dquote", "foldline", "q_join", "param_value"}

    def bounded(self, e, ctx):
        """is the magnitude of the value bounded by a small constant (so that one more + - or negation stays far inside the range of
        timedelta / int)?  Numbers read from a slice of constant width, constants, and timedelta(...) / sums / negations of those."""
        if isinstance(e, ast.Constant):
            return isinstance(e.value, (int, float)) and abs(e.value) < 10 ** 6
        if isinstance(e, ast.Name):
            return e.id in ctx.get("bounded", ())
        if isinstance(e, ast.BoolOp) and isinstance(e.op, ast.Or):
            return all(self.bounded(v, ctx) or (isinstance(v, ast.Subscript) and self.const_width_slice(v)) for v in e.values)
        if isinstance(e, ast.Call) and isinstance(e.func, ast.Name):
            if e.func.id == "int" and len(e.args) == 1 and not e.keywords:
                a = e.args[0]
                if isinstance(a, ast.BoolOp) and isinstance(a.op, ast.Or):
                    return all((isinstance(v, ast.Subscript) and self.const_width_slice(v)) or self.bounded(v, ctx) for v in a.values)
                return isinstance(a, ast.Subscript) and self.const_width_slice(a)
            if e.func.id == "timedelta":
                return all(self.bounded(a, ctx) for a in e.args) and all(self.bounded(k.value, ctx) for k in e.keywords)
            return False
        if isinstance(e, ast.UnaryOp) and isinstance(e.op, ast.USub):
            return self.bounded(e.operand, ctx)
        if isinstance(e, ast.BinOp) and isinstance(e.op, (ast.Add, ast.Sub)):
            return self.bounded(e.left, ctx) and self.bounded(e.right, ctx)
        return False

    @staticmethod
    def const_width_slice(e):
        sl = e.slice
        if not isinstance(sl, ast.Slice) or sl.step is not None:
            return False
        lo = 0 if sl.lower is None else (sl.lower.value if isinstance(sl.lower, ast.Constant) and isinstance(sl.lower.value, int) else None)
        hi = sl.upper.value if isinstance(sl.upper, ast.Constant) and isinstance(sl.upper.value, int) else None
        return lo is not None and hi is not None and 0 <= lo <= hi and hi - lo <= 6

    def maybe_temporal(self, e, ctx):
        """can the value be a date / datetime / time / timedelta object?  (conservative: unknown means yes)"""
        if isinstance(e, (ast.Constant, ast.JoinedStr, ast.List, ast.Tuple, ast.Dict, ast.Set, ast.ListComp, ast.Compare, ast.BoolOp)) and not \
                (isinstance(e, ast.BoolOp)):
            return False
        if isinstance(e, ast.Name):
            if e.id in ctx.get("non_temporal", ()):
                return False
            if e.id in TEXT_NAMES and e.id not in ctx.get("assigned", ()):
                return False                 # a parameter with a name that holds text by convention
            return True
        if isinstance(e, ast.Attribute):
            return e.attr not in self.INT_ATTRS
        if isinstance(e, ast.Call):
            f = e.func
            if isinstance(f, ast.Name) and f.id in self.NON_TEMPORAL_CALLS:
                return False
            if isinstance(f, ast.Attribute) and f.attr in ("encode", "decode", "join", "upper", "lower", "strip", "replace", "format", "to_ical", "group",
                                                           "total_seconds", "strftime", "split", "sub", "index", "find", "count"):
                return False
            return True
        if isinstance(e, ast.BinOp):
            if isinstance(e.op, ast.Mod) or isinstance(e.op, (ast.FloorDiv, ast.Div)) and not self.maybe_temporal(e.left, ctx):
                return False
            l, r = self.maybe_temporal(e.left, ctx), self.maybe_temporal(e.right, ctx)
            if isinstance(e.op, ast.Mult):
                return l or r
            return l and r                  # str + x / int + x with one side known: the other side has the same kind (or TypeError: precondition)
        if isinstance(e, ast.UnaryOp):
            return self.maybe_temporal(e.operand, ctx)
        if isinstance(e, ast.Subscript):
            return self.maybe_temporal(e.value, ctx)
        if isinstance(e, ast.IfExp):
            return self.maybe_temporal(e.body, ctx) or self.maybe_temporal(e.orelse, ctx)
        return True

    def call(self, e, ctx):
        f = e.func
        if isinstance(f, ast.Name):
            n = f.id
            if n == "cls" and ctx["cls"]:
                return self.construct(ctx["cls"], ctx)
            if n in ("Parameters", "CaselessDict"):
                self.assumed_used.add("Parameters(...) / CaselessDict(...) construction from a mapping does not raise (C17)")
                return set()
            if n in self.classes:
                return self.construct(n, ctx)
            fn = self.function(n)
            if fn:
                return self.escaping(fn[0], fn[1])
            if n == "timedelta" and all(isinstance(a, ast.Constant) for a in e.args) and all(isinstance(k.value, ast.Constant) for k in e.keywords):
                return set()                 # a constant timedelta
            if n in ("Parameters", "CaselessDict"):
                self.assumed_used.add("Parameters(...) / CaselessDict(...) construction from a mapping does not raise (C17)")
                return set()
            if n in TABLE:
                self.assumed_used.add(f"{n}() raises {sorted(TABLE[n]) or 'nothing'}")
                return set(TABLE[n])
            if n in HIER or n.endswith("Error") or n in ("InvalidCalendar",):
                return set()             # constructing an exception object
            if n in ("factory", "klass", "c_class", "typ", "parser", "type_class"):
                # a value class chosen at run time: any of them
                out = set()
                for cn in self.value_classes():
                    out |= self.construct(cn, ctx)
                return out
            self.unresolved.add(f"{ctx['label']}: call of {n}")
            return {UNKNOWN}
        if isinstance(f, ast.Attribute):
            m = "." + f.attr
            recv = f.value
            # ClassName.method(...)
            if isinstance(recv, ast.Name) and recv.id in self.classes:
                r = self.method(recv.id, f.attr)
                if r:
                    return self.escaping(r[0], r[1], r[2])
            if isinstance(recv, ast.Name) and recv.id == "cls" and ctx["cls"]:
                r = self.method(ctx["cls"], f.attr)
                if r:
                    return self.escaping(r[0], r[1], r[2])
            if isinstance(recv, ast.Name) and recv.id == "self" and ctx["cls"]:
                r = self.method(ctx["cls"], f.attr)
                if r:
                    return self.escaping(r[0], r[1], r[2])
            if isinstance(recv, ast.Call) and isinstance(recv.func, ast.Name) and recv.func.id == "super" and ctx["cls"]:
                mn, mod = self.classes[ctx["cls"]]
                for b in mod.bases(ctx["cls"]):
                    r = self.method(b, f.attr)
                    if r:
                        return self.escaping(r[0], r[1], r[2])
                if f.attr in ("__new__", "__init__", "__getitem__", "__setitem__", "__contains__", "get", "pop", "setdefault", "copy", "__eq__",
                              "__delitem__", "popitem"):
                    base_raises = {"__getitem__": {"KeyError"}, "__delitem__": {"KeyError"}, "popitem": {"KeyError"},
                                   "__new__": {"ValueError"} if ctx["cls"] in ("vInt", "vFloat", "vBoolean", "vMonth") else set()}
                    return set(base_raises.get(f.attr, set()))
            # the timezone proxy and the providers
            if isinstance(recv, ast.Name) and recv.id == "tzp" or (isinstance(recv, ast.Attribute) and recv.attr in ("_TZP__provider",)):
                return self.provider_call(f.attr, ctx, proxy=isinstance(recv, ast.Name))
            if isinstance(recv, ast.Attribute) and recv.attr == "__provider":
                return self.provider_call(f.attr, ctx, proxy=False)
            if isinstance(recv, ast.Name) and recv.id == "pytz" and m in PYTZ:
                return set(PYTZ[m])
            if f.attr == "localize" and ctx["label"].startswith("timezone/pytz"):
                return set(PYTZ[".localize"])
            if f.attr in ("from_ical", "to_ical") and not (isinstance(recv, ast.Name) and recv.id in self.classes):
                out = set()
                for cn in self.value_classes():
                    r = self.method(cn, f.attr)
                    if r:
                        out |= self.escaping(r[0], r[1], r[2])
                return out
            if f.attr in ("parts",):
                r = self.method("Contentline", "parts")
                return self.escaping(r[0], r[1], r[2]) if r else {UNKNOWN}
            if f.attr in ("add", "add_component", "for_property", "to_tz", "get_transitions", "tz_name", "_extract_offsets", "cache_timezone_component"):
                for cn in ("Component", "Timezone", "TypesFactory", "TZP"):
                    r = self.method(cn, f.attr)
                    if r:
                        return self.escaping(r[0], r[1], r[2])
            if f.attr == "decode" and len(e.args) >= 2 and isinstance(e.args[1], ast.Constant) and e.args[1].value == "replace":
                return set()
            if f.attr == "encode" and len(e.args) >= 2 and isinstance(e.args[1], ast.Constant) and e.args[1].value == "replace":
                return set()
            if m in TABLE:
                self.assumed_used.add(f"{m}() raises {sorted(TABLE[m]) or 'nothing'}")
                return set(TABLE[m])
            self.unresolved.add(f"{ctx['label']}: call of {ast.unparse(f)[:40]}")
            return {UNKNOWN}
        return {UNKNOWN}

    def provider_call(self, name, ctx, proxy):
        out = set()
        if proxy:
            r = self.method("TZP", name)
            if r:
                return self.escaping(r[0], r[1], r[2])
        for prov in ("ZONEINFO", "PYTZ"):
            r = self.method(prov, name)
            if r:
                out |= self.escaping(r[0], r[1], r[2])
        return out

    def value_classes(self):
        return [c for c, (mn, m) in self.classes.items() if mn == "prop" and c.startswith("v")]

    def construct(self, cls, ctx):
        out = set()
        found = False
        for name in ("__new__", "__init__"):
            r = self.method(cls, name)
            if r:
                found = True
                out |= self.escaping(r[0], r[1], r[2])
        if not found and cls in ("vInt", "vFloat"):
            out |= {"ValueError"}
        return out
