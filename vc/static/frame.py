"""Static frame ("modifies {}") and determinism analysis over the real AST (used by C10).

frame_violations(fn)  -- conservative check that a method does not write to `self` or to anything reachable from it:
   * stores / deletes / augmented assignments whose target is rooted at `self` (self.x = .., self.x[k] = .., del self.x ...)
   * calls of mutating methods (update, append, extend, insert, pop, popitem, remove, clear, setdefault, sort, reverse, add,
     discard, __setitem__, __delitem__) on an expression rooted at `self` or at a local ALIAS of such an expression
   * aliases: a local bound to an expression rooted at self / another alias (attribute chains, subscripts, getattr(self, ..),
     self.get(..)); locals bound to calls of list/dict/sorted/tuple/str/bytes or to comprehensions/literals are FRESH
   * setattr(self, ..) / delattr / self.__dict__
 Calls to other functions are not followed here: the caller passes the set of callees that must themselves be analysed
 (the call graph closure is computed by `reachable`).
nondeterminism(fn)    -- flags hash()/id()/random/time/uuid/os.urandom/datetime.now|today|utcnow and iteration or joining over a
   set (set(...), set displays, set comprehensions, names bound to them) that is not directly wrapped in sorted(...)
"""
from __future__ import annotations

import ast

MUTATORS = {"update", "append", "extend", "insert", "pop", "popitem", "remove", "clear", "setdefault", "sort", "reverse", "add",
            "discard", "__setitem__", "__delitem__", "__setattr__", "__delattr__"}
FRESH_CALLS = {"list", "dict", "sorted", "tuple", "str", "bytes", "set", "frozenset", "int", "float", "Parameters", "Contentlines", "type"}


def root_name(e):
    while isinstance(e, (ast.Attribute, ast.Subscript)):
        e = e.value
    if isinstance(e, ast.Call) and isinstance(e.func, ast.Attribute) and e.func.attr in ("get", "items", "values", "keys", "copy"):
        return root_name(e.func.value) if e.func.attr != "copy" else None
    if isinstance(e, ast.Call) and isinstance(e.func, ast.Name) and e.func.id == "getattr" and e.args:
        return root_name(e.args[0])
    return e.id if isinstance(e, ast.Name) else None


def frame_violations(fn: ast.FunctionDef, self_name="self"):
    aliases = {self_name}
    out = []
    # iterate to a fixpoint over simple alias assignments
    changed = True
    while changed:
        changed = False
        for n in ast.walk(fn):
            targets, value = [], None
            if isinstance(n, ast.Assign):
                targets, value = n.targets, n.value
            elif isinstance(n, (ast.For, ast.comprehension)):
                targets, value = [n.target], n.iter
            elif isinstance(n, ast.NamedExpr):
                targets, value = [n.target], n.value
            for t in targets:
                for nm in [x for x in ast.walk(t) if isinstance(x, ast.Name)]:
                    if nm.id in aliases:
                        continue
                    fresh = isinstance(value, (ast.ListComp, ast.DictComp, ast.SetComp, ast.GeneratorExp, ast.List, ast.Dict, ast.Set, ast.Constant,
                                               ast.JoinedStr, ast.Tuple, ast.BinOp, ast.Compare, ast.BoolOp)) or \
                        (isinstance(value, ast.Call) and isinstance(value.func, ast.Name) and value.func.id in FRESH_CALLS)
                    if isinstance(n, (ast.For, ast.comprehension)):
                        # elements of something rooted at self are reachable from self
                        fresh = False
                        if isinstance(value, ast.Call) and isinstance(value.func, ast.Name) and value.func.id in FRESH_CALLS and value.args:
                            value = value.args[0]
                    if not fresh and root_name(value) in aliases:
                        aliases.add(nm.id)
                        changed = True
    for n in ast.walk(fn):
        if isinstance(n, (ast.Assign, ast.AugAssign, ast.AnnAssign, ast.Delete)):
            tgts = n.targets if isinstance(n, (ast.Assign, ast.Delete)) else [n.target]
            for t in tgts:
                for sub in ([t] if not isinstance(t, (ast.Tuple, ast.List)) else t.elts):
                    if isinstance(sub, (ast.Attribute, ast.Subscript)) and root_name(sub) in aliases:
                        out.append((n.lineno, f"writes {ast.unparse(sub)}"))
        if isinstance(n, ast.Call):
            f = n.func
            if isinstance(f, ast.Attribute) and f.attr in MUTATORS and root_name(f.value) in aliases:
                out.append((n.lineno, f"calls {ast.unparse(f)}(...)"))
            if isinstance(f, ast.Name) and f.id in ("setattr", "delattr") and n.args and root_name(n.args[0]) in aliases:
                out.append((n.lineno, f"{f.id} on {ast.unparse(n.args[0])}"))
        if isinstance(n, ast.Attribute) and n.attr == "__dict__" and root_name(n.value) in aliases and not isinstance(n.ctx, ast.Load):
            out.append((n.lineno, "writes __dict__"))
    return sorted(set(out))


NONDET_CALLS = {"hash", "id", "random", "uuid4", "uuid1", "urandom", "now", "today", "utcnow", "time", "time_ns", "getpid", "choice", "shuffle"}


def nondeterminism(fn: ast.FunctionDef):
    out = []
    setnames = set()
    for n in ast.walk(fn):
        if isinstance(n, ast.Assign) and len(n.targets) == 1 and isinstance(n.targets[0], ast.Name):
            v = n.value
            if isinstance(v, (ast.Set, ast.SetComp)) or (isinstance(v, ast.Call) and isinstance(v.func, ast.Name) and v.func.id in ("set", "frozenset")):
                setnames.add(n.targets[0].id)

    def is_set(e):
        return isinstance(e, (ast.Set, ast.SetComp)) or (isinstance(e, ast.Call) and isinstance(e.func, ast.Name) and e.func.id in ("set", "frozenset")) \
            or (isinstance(e, ast.Name) and e.id in setnames)
    for n in ast.walk(fn):
        if isinstance(n, ast.Call):
            f = n.func
            nm = f.id if isinstance(f, ast.Name) else (f.attr if isinstance(f, ast.Attribute) else None)
            if nm in NONDET_CALLS and not (nm in ("time",) and isinstance(f, ast.Name) is False and False):
                # `time(...)` constructor of datetime.time and `.today`-free code: only flag module-ish uses
                if nm == "time" and isinstance(f, ast.Name):
                    continue
                out.append((n.lineno, f"calls {ast.unparse(f)}"))
            if nm == "join" and n.args and is_set(n.args[0]):
                out.append((n.lineno, "joins a set"))
            if nm == "pop" and isinstance(f, ast.Attribute) and is_set(f.value) and not n.args:
                out.append((n.lineno, f"takes an arbitrary element of a set: {ast.unparse(n)[:40]}"))
            if nm in ("list", "tuple", "iter", "next", "enumerate", "zip", "dict") and isinstance(f, ast.Name) and n.args and is_set(n.args[0]):
                out.append((n.lineno, f"reads a set in hash order: {ast.unparse(n)[:40]}"))
            if nm == "next" and isinstance(f, ast.Name) and n.args and isinstance(n.args[0], ast.Call) and isinstance(n.args[0].func, ast.Name) \
                    and n.args[0].func.id == "iter" and n.args[0].args and is_set(n.args[0].args[0]):
                out.append((n.lineno, f"takes an arbitrary element of a set: {ast.unparse(n)[:40]}"))
        if isinstance(n, ast.Assign) and isinstance(n.targets[0], (ast.Tuple, ast.List)) and is_set(n.value):
            out.append((n.lineno, f"unpacks a set in hash order: {ast.unparse(n)[:40]}"))
        if isinstance(n, (ast.For, ast.comprehension)) and is_set(n.iter):
            out.append((getattr(n, "lineno", getattr(n.iter, "lineno", 0)), f"iterates a set: {ast.unparse(n.iter)[:40]}"))
    return sorted(set(out))


def calls_of(fn: ast.FunctionDef):
    """names of functions / methods called (for a name-based call graph)"""
    out = set()
    for n in ast.walk(fn):
        if isinstance(n, ast.Call):
            f = n.func
            if isinstance(f, ast.Name):
                out.add(f.id)
            elif isinstance(f, ast.Attribute):
                out.add("." + f.attr)
    return out
