"""Hidden-state scan ("frame of the whole library"): which functions write state that outlives the call?

A result that is a function of the arguments (C10, C12, C14, C17, C18, C19 all say so in their own words) cannot depend on
earlier calls.  State that can carry information from one call to the next is: a cache decorator, a `global`, a store to (or a
mutating call on) a module-level name or a class attribute, and a store to an attribute of `self` outside a constructor.  The
unchanged tree has exactly the instance-attribute writers listed in ALLOWED (the documented setters) and nothing of the other
kinds; anything else is a candidate the caller reports as undecided (a stand-in with call histories decides).
"""
from __future__ import annotations

import ast

from vc.pyvc import source

MUTATORS = {"append", "add", "update", "setdefault", "pop", "clear", "extend", "insert", "remove", "discard", "popitem", "__setitem__"}
# (module, class, method, attribute): the setters of the library
ALLOWED = {
    ("cal", "Event", "start.setter", "DTSTART"), ("cal", "Event", "end.setter", "DTEND"), ("cal", "Todo", "start.setter", "DTSTART"),
    ("cal", "Todo", "end.setter", "DUE"), ("cal", "Journal", "start.setter", "DTSTART"),
    ("alarms", "Alarms", "set_parent", "_parent"), ("alarms", "Alarms", "set_start", "_start"), ("alarms", "Alarms", "set_end", "_end"),
    ("alarms", "Alarms", "acknowledge_until", "_last_ack"), ("alarms", "Alarms", "snooze_until", "_snooze_until"),
    ("alarms", "Alarms", "set_local_timezone", "_local_tzinfo"),
    ("timezone/tzp", "TZP", "_use", "__tz_cache"), ("timezone/tzp", "TZP", "_use", "__provider"),
}
MODULES = ("cal", "prop", "parser", "parser_tools", "caselessdict", "alarms", "tools", "timezone/tzp", "timezone/zoneinfo", "timezone/pytz", "timezone/tzid")


def scan(modules=MODULES):
    """-> list of (label, line, what)"""
    out = []
    for mn in modules:
        try:
            m = source.module(mn)
        except Exception:  # noqa
            continue
        module_names = {t.id for n in m.tree.body if isinstance(n, ast.Assign) for t in n.targets if isinstance(t, ast.Name)}
        class_names = set(m.classes)

        def root(e):
            while isinstance(e, (ast.Attribute, ast.Subscript)):
                e = e.value
            return e

        def visit(label, fn, cn, key):
            for d in fn.decorator_list:
                if "cache" in ast.unparse(d):
                    out.append((label, fn.lineno, f"cache decorator {ast.unparse(d)}"))
            for n in ast.walk(fn):
                if isinstance(n, ast.Global):
                    out.append((label, n.lineno, f"global {', '.join(n.names)}"))
                tg = n.targets if isinstance(n, ast.Assign) else ([n.target] if isinstance(n, (ast.AugAssign, ast.AnnAssign)) else [])
                for t in tg:
                    r = root(t)
                    if isinstance(t, (ast.Attribute, ast.Subscript)) and isinstance(r, ast.Name):
                        if r.id in class_names or r.id == "cls" or r.id in module_names:
                            out.append((label, n.lineno, f"stores to class / module state {ast.unparse(t)}"))
                        elif r.id == "self" and cn is not None and fn.name not in ("__init__", "__new__") and isinstance(t, ast.Attribute) \
                                and isinstance(t.value, ast.Name):
                            if (mn, cn, key, t.attr) not in ALLOWED:
                                out.append((label, n.lineno, f"writes the instance attribute {ast.unparse(t)} outside a constructor or setter"))
                if isinstance(n, ast.Call) and isinstance(n.func, ast.Attribute) and n.func.attr in MUTATORS and not isinstance(n.func.value, ast.Name):
                    r = root(n.func.value)
                    if isinstance(r, ast.Name) and (r.id in class_names or r.id == "cls" or r.id in module_names):
                        out.append((label, n.lineno, f"mutates class / module state {ast.unparse(n.func.value)} via .{n.func.attr}()"))
        for fname, fn in m.functions.items():
            visit(f"{mn}:{fname}", fn, None, fname)
        for cn in m.classes:
            for key, node in m.class_members(cn).items():
                if isinstance(node, ast.FunctionDef):
                    visit(f"{mn}:{cn}.{key}", node, cn, key)
    return out


def obligation(pid, modules, Obligation, PROVED, UNDECIDED):
    found = scan(modules)
    ob = Obligation(f"{pid}.state.no_state_outlives_a_call", "every function of " + ", ".join(modules), "fin", PROVED if not found else UNDECIDED)
    if found:
        ob.detail = (f"{found[0][0]} line {found[0][1]}: {found[0][2]}" + (f" (+{len(found) - 1} more)" if len(found) > 1 else "")
                     + " -- a candidate for results that depend on earlier calls (the stand-in's call histories decide)")
    else:
        ob.detail = "no cache decorator, no global, no store to class / module state, instance attributes written only by constructors and the listed setters"
    return ob
