"""./check entry point: dispatch to props/<Cxx>.py, honour VERIF_TIER / VERIF_SEED, map verdicts to exit codes."""
import argparse
import importlib
import json
import os
import sys

from vc import common


def main(argv=None) -> int:
    ap = argparse.ArgumentParser(prog="check")
    ap.add_argument("pid")
    ap.add_argument("--tier", default=os.environ.get("VERIF_TIER") or "quick", choices=["quick", "thorough"])
    ap.add_argument("--replay", default=None)
    ap.add_argument("--seed", type=int, default=int(os.environ.get("VERIF_SEED") or 0))
    a = ap.parse_args(argv)
    pid = a.pid.upper()
    try:
        mod = importlib.import_module(f"props.{pid}")
    except ModuleNotFoundError as e:
        if e.name == f"props.{pid}":
            print(f"no check for {pid}")
            return 3
        raise
    if a.replay:
        return common.guarded(pid, lambda: mod.replay(json.load(open(a.replay))))

    def go():
        rep = common.Report(pid, a.tier, a.seed, mod.LEVEL)
        mod.run(rep)
        return common.finish(rep)
    return common.guarded(pid, go)


if __name__ == "__main__":
    sys.exit(main())
