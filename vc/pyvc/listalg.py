"""listalg -- verification conditions for pure functions that REARRANGE a list of strings (filter / sort / concatenate).

The function body (real AST, re-read every run) is evaluated to a term of the list algebra

    T ::= Keys | Filter(T, cond) | Sorted(T, key) | Concat(T, T)

where cond / key are the real comprehension conditions and key lambdas, evaluated on a SYMBOLIC element.  Supported
statements: assignments to names, return.  Supported expressions: names, int constants, `X or []` on the order
argument, `{k: i for i, k in enumerate(order)}` (the index map of the order), `[k for k in L if cond]`, `sorted(L)`,
`sorted(L, key=lambda)`, `list(L)`, `tuple(L)`, `len(L)`, `L1 + L2`; inside cond / key: `k in m`, `k not in m`, `m[k]`,
`m.get(k, d)`, tuples, names, constants, `not`, `and`, `or`.  Anything else raises Unsupported (the caller reports
undecided - never a violation).

For the result term R and symbolic elements x, y of the input the generator emits, for ALL inputs (no length bound):
  perm     mult(x, R) == count(x)                 every input element occurs exactly as often as in the input
  order    before(x, y, R) => spec_le(x, y)  whenever x can stand before y in the result the specification allows it
  noraise  every m[k] is applied to an element with k in m
  det      x != y => not (before(x, y, R) & before(y, x, R))   the result does not depend on the order of the input (distinct keys)
with
  mult(x, Keys) = count(x) >= 1, mult(x, Filter(L,c)) = ite(c(x), mult(x,L), 0), mult(x, Sorted(L,f)) = mult(x,L), mult(x, A+B) = mult(A)+mult(B)
  before(x,y,Keys) = true (the input order is arbitrary)
  before(x,y,Filter(L,c)) = c(x) & c(y) & before(x,y,L)
  before(x,y,Sorted(L,f)) = mem(x,L) & mem(y,L) & (f(x) < f(y)  |  f(x) == f(y) & before(x,y,L))      (sorted is stable)
  before(x,y,A+B) = before(x,y,A) | before(x,y,B) | mem(x,A) & mem(y,B)
Assumed (stated in the evidence): sorted() returns a stable ascending permutation (CPython contract); str order is code-point
lexicographic (z3 str.<=); the order argument has no duplicates; tuples compare lexicographically.
"""
from __future__ import annotations

import ast

import z3


class Unsupported(Exception):
    pass


class Keys:
    pass


class Filter:
    def __init__(self, src, var, cond, env):
        self.src, self.var, self.cond, self.env = src, var, cond, env


class Sorted:
    def __init__(self, src, key):
        self.src, self.key = src, key     # key: None | (argname, body, env)


class Concat:
    def __init__(self, a, b):
        self.a, self.b = a, b


class Order:
    pass


class IndexMap:
    pass


class LenOf:
    def __init__(self, t):
        self.t = t


class Ctx:
    """symbolic setting: the order as a partial injective rank function on strings, the number of input keys"""
    def __init__(self):
        S = z3.StringSort()
        self.in_map = z3.Function("in_order", S, z3.BoolSort())
        self.rank = z3.Function("rank", S, z3.IntSort())
        self.order_len = z3.Int("order_len")
        self.n = z3.Int("n_keys")
        self.x, self.y = z3.String("x"), z3.String("y")
        self.count = z3.Function("count_in_keys", S, z3.IntSort())     # multiplicity of an element in the input (>= 1)
        self.obligations_noraise = []

    def hyps(self):
        x, y = self.x, self.y
        hs = [self.order_len >= 0, self.count(x) >= 1, self.count(y) >= 1, self.n >= self.count(x), z3.Implies(x != y, self.n >= self.count(x) + self.count(y))]
        for e in (x, y):
            hs.append(z3.Implies(self.in_map(e), z3.And(self.rank(e) >= 0, self.rank(e) < self.order_len)))
        hs.append(z3.Implies(z3.And(self.in_map(x), self.in_map(y), self.rank(x) == self.rank(y)), x == y))
        return hs

    def spec_le(self, x, y):
        ix, iy = self.in_map(x), self.in_map(y)
        return z3.Or(z3.And(ix, iy, self.rank(x) <= self.rank(y)), z3.And(ix, z3.Not(iy)), z3.And(z3.Not(ix), z3.Not(iy), x <= y))


# ---------------------------------------------------------------------------------------------------
# evaluation of the function body to a term

def eval_function(fn: ast.FunctionDef, keys_param: str, order_param: str):
    env = {keys_param: Keys(), order_param: Order()}
    body = [s for s in fn.body if not (isinstance(s, ast.Expr) and isinstance(s.value, ast.Constant))]
    for st in body:
        if isinstance(st, ast.Assign) and len(st.targets) == 1 and isinstance(st.targets[0], ast.Name):
            env[st.targets[0].id] = ev(st.value, env)
        elif isinstance(st, ast.Return) and st.value is not None:
            r = ev(st.value, env)
            if not isinstance(r, (Keys, Filter, Sorted, Concat)):
                raise Unsupported("the function does not return a list term")
            return r
        else:
            raise Unsupported(f"statement {ast.unparse(st)[:60]!r}")
    raise Unsupported("no return")


def is_list(v):
    return isinstance(v, (Keys, Filter, Sorted, Concat))


def ev(e, env):
    if isinstance(e, ast.Name):
        if e.id in env:
            return env[e.id]
        raise Unsupported(f"name {e.id}")
    if isinstance(e, ast.Constant) and isinstance(e.value, int):
        return e.value
    if isinstance(e, ast.BoolOp) and isinstance(e.op, ast.Or) and len(e.values) == 2:
        a = ev(e.values[0], env)
        b = e.values[1]
        if isinstance(a, Order) and isinstance(b, (ast.List, ast.Tuple)) and not b.elts:
            return a        # None / empty order -> the empty order: the same abstract value (order_len may be 0)
        raise Unsupported("or")
    if isinstance(e, ast.DictComp) and len(e.generators) == 1 and not e.generators[0].ifs:
        g = e.generators[0]
        it = g.iter
        if (isinstance(it, ast.Call) and isinstance(it.func, ast.Name) and it.func.id == "enumerate" and len(it.args) == 1 and not it.keywords
                and isinstance(ev(it.args[0], env), Order) and isinstance(g.target, ast.Tuple) and len(g.target.elts) == 2
                and all(isinstance(t, ast.Name) for t in g.target.elts)):
            i, k = g.target.elts[0].id, g.target.elts[1].id
            if isinstance(e.key, ast.Name) and e.key.id == k and isinstance(e.value, ast.Name) and e.value.id == i:
                return IndexMap()
        raise Unsupported("dict comprehension")
    if isinstance(e, ast.ListComp) and len(e.generators) == 1:
        g = e.generators[0]
        src = ev(g.iter, env)
        if is_list(src) and isinstance(g.target, ast.Name) and isinstance(e.elt, ast.Name) and e.elt.id == g.target.id:
            t = src
            for c in g.ifs:
                t = Filter(t, g.target.id, c, dict(env))
            return t
        raise Unsupported("list comprehension")
    if isinstance(e, ast.Call) and isinstance(e.func, ast.Name):
        f = e.func.id
        if f in ("list", "tuple") and len(e.args) == 1 and not e.keywords:
            v = ev(e.args[0], env)
            if is_list(v):
                return v
        if f == "len" and len(e.args) == 1 and not e.keywords:
            v = ev(e.args[0], env)
            if is_list(v) or isinstance(v, (IndexMap, Order)):
                return LenOf(v)
        if f == "sorted" and len(e.args) == 1:
            v = ev(e.args[0], env)
            if is_list(v):
                key = None
                for kw in e.keywords:
                    if kw.arg == "key" and isinstance(kw.value, ast.Lambda) and len(kw.value.args.args) == 1:
                        key = (kw.value.args.args[0].arg, kw.value.body, dict(env))
                    else:
                        raise Unsupported("sorted keyword")
                return Sorted(v, key)
        raise Unsupported(f"call {f}")
    if isinstance(e, ast.BinOp) and isinstance(e.op, ast.Add):
        a, b = ev(e.left, env), ev(e.right, env)
        if is_list(a) and is_list(b):
            return Concat(a, b)
    raise Unsupported(ast.unparse(e)[:60])


# ---------------------------------------------------------------------------------------------------
# element-level evaluation (conditions and sort keys on a symbolic element)

def elem(e, env, var, x, ctx: Ctx, guard):
    """value of expression e with `var` bound to the symbolic element x: a z3 Bool / Int / String or a tuple of those"""
    if isinstance(e, ast.Name):
        if e.id == var:
            return x
        v = env.get(e.id)
        if isinstance(v, int):
            return z3.IntVal(v)
        if isinstance(v, LenOf):
            if isinstance(v.t, Keys):
                return ctx.n
            if isinstance(v.t, (IndexMap, Order)):
                return ctx.order_len      # the declared order has no duplicates: the index map has one entry per name
            raise Unsupported("len of a derived list")
        raise Unsupported(f"name {e.id} in an element expression")
    if isinstance(e, ast.Call) and isinstance(e.func, ast.Name) and e.func.id == "len" and len(e.args) == 1 and isinstance(e.args[0], ast.Name):
        v = env.get(e.args[0].id)
        if isinstance(v, Keys):
            return ctx.n
        if isinstance(v, (IndexMap, Order)):
            return ctx.order_len
        raise Unsupported("len of a derived list")
    if isinstance(e, ast.Constant) and isinstance(e.value, bool):
        return z3.BoolVal(e.value)
    if isinstance(e, ast.Constant) and isinstance(e.value, int):
        return z3.IntVal(e.value)
    if isinstance(e, ast.Constant) and isinstance(e.value, str):
        return z3.StringVal(e.value)
    if isinstance(e, ast.Tuple):
        return tuple(elem(t, env, var, x, ctx, guard) for t in e.elts)
    if isinstance(e, ast.Compare) and len(e.ops) == 1 and isinstance(e.ops[0], (ast.In, ast.NotIn)):
        m = env.get(e.comparators[0].id) if isinstance(e.comparators[0], ast.Name) else None
        k = elem(e.left, env, var, x, ctx, guard)
        if isinstance(m, IndexMap) and z3.is_string(k):
            r = ctx.in_map(k)
            return r if isinstance(e.ops[0], ast.In) else z3.Not(r)
        raise Unsupported("membership in something that is not the index map")
    if isinstance(e, ast.Compare) and len(e.ops) == 1 and isinstance(e.ops[0], (ast.Eq, ast.NotEq, ast.Lt, ast.LtE, ast.Gt, ast.GtE)):
        a, b = elem(e.left, env, var, x, ctx, guard), elem(e.comparators[0], env, var, x, ctx, guard)
        op = e.ops[0]
        if isinstance(op, ast.Eq):
            return eq(a, b)
        if isinstance(op, ast.NotEq):
            return z3.Not(eq(a, b))
        if isinstance(op, ast.Lt):
            return lt(a, b)
        if isinstance(op, ast.Gt):
            return lt(b, a)
        if isinstance(op, ast.LtE):
            return z3.Not(lt(b, a))
        return z3.Not(lt(a, b))
    if isinstance(e, ast.UnaryOp) and isinstance(e.op, ast.USub):
        v = elem(e.operand, env, var, x, ctx, guard)
        if z3.is_int(v):
            return -v
        raise Unsupported("unary minus on a non-integer")
    if isinstance(e, ast.UnaryOp) and isinstance(e.op, ast.Not):
        return z3.Not(as_bool(elem(e.operand, env, var, x, ctx, guard)))
    if isinstance(e, ast.BoolOp):
        vs = [as_bool(elem(v, env, var, x, ctx, guard)) for v in e.values]
        return z3.And(*vs) if isinstance(e.op, ast.And) else z3.Or(*vs)
    if isinstance(e, ast.Subscript) and isinstance(e.value, ast.Name) and isinstance(env.get(e.value.id), IndexMap):
        k = elem(e.slice, env, var, x, ctx, guard)
        if z3.is_string(k):
            ctx.obligations_noraise.append(z3.Implies(guard, ctx.in_map(k)))
            return ctx.rank(k)
    if (isinstance(e, ast.Call) and isinstance(e.func, ast.Attribute) and e.func.attr == "get" and isinstance(e.func.value, ast.Name)
            and isinstance(env.get(e.func.value.id), IndexMap) and len(e.args) == 2 and not e.keywords):
        k = elem(e.args[0], env, var, x, ctx, guard)
        d = elem(e.args[1], env, var, x, ctx, guard)
        if z3.is_string(k) and z3.is_int(d):
            return z3.If(ctx.in_map(k), ctx.rank(k), d)
    raise Unsupported(ast.unparse(e)[:60])


def as_bool(v):
    if z3.is_bool(v):
        return v
    raise Unsupported("a non-boolean condition")


def lt(a, b):
    if isinstance(a, tuple) and isinstance(b, tuple) and len(a) == len(b):
        if not a:
            return z3.BoolVal(False)
        return z3.Or(lt(a[0], b[0]), z3.And(eq(a[0], b[0]), lt(a[1:], b[1:])))
    if isinstance(a, tuple) or isinstance(b, tuple):
        raise Unsupported("tuples of different length as sort keys")
    if a.sort() != b.sort():
        raise Unsupported("sort keys of different types")
    return a < b


def eq(a, b):
    if isinstance(a, tuple) and isinstance(b, tuple) and len(a) == len(b):
        return z3.And(*[eq(p, q) for p, q in zip(a, b)]) if a else z3.BoolVal(True)
    if isinstance(a, tuple) or isinstance(b, tuple) or a.sort() != b.sort():
        raise Unsupported("incomparable sort keys")
    return a == b


def cond_of(t: Filter, x, ctx, guard):
    return as_bool(elem(t.cond, t.env, t.var, x, ctx, guard))


def key_of(t: Sorted, x, ctx, guard):
    if t.key is None:
        return x
    arg, body, env = t.key
    return elem(body, env, arg, x, ctx, guard)


def mult(x, t, ctx):
    if isinstance(t, Keys):
        return ctx.count(x)
    if isinstance(t, Filter):
        return z3.If(cond_of(t, x, ctx, mem(x, t.src, ctx)), mult(x, t.src, ctx), 0)
    if isinstance(t, Sorted):
        return mult(x, t.src, ctx)
    return mult(x, t.a, ctx) + mult(x, t.b, ctx)


def mem(x, t, ctx):
    return mult(x, t, ctx) >= 1


def before(x, y, t, ctx):
    if isinstance(t, Keys):
        return z3.BoolVal(True)
    if isinstance(t, Filter):
        g = z3.And(mem(x, t.src, ctx), mem(y, t.src, ctx))
        return z3.And(cond_of(t, x, ctx, g), cond_of(t, y, ctx, g), before(x, y, t.src, ctx))
    if isinstance(t, Sorted):
        mx, my = mem(x, t.src, ctx), mem(y, t.src, ctx)
        fx, fy = key_of(t, x, ctx, mx), key_of(t, y, ctx, my)
        return z3.And(mx, my, z3.Or(lt(fx, fy), z3.And(eq(fx, fy), before(x, y, t.src, ctx))))
    return z3.Or(before(x, y, t.a, ctx), before(x, y, t.b, ctx), z3.And(mem(x, t.a, ctx), mem(y, t.b, ctx)))


def describe(t):
    if isinstance(t, Keys):
        return "keys"
    if isinstance(t, Filter):
        return f"[{t.var} in {describe(t.src)} if {ast.unparse(t.cond)}]"
    if isinstance(t, Sorted):
        return f"sorted({describe(t.src)}" + (f", key=lambda {t.key[0]}: {ast.unparse(t.key[1])})" if t.key else ")")
    return f"{describe(t.a)} + {describe(t.b)}"


def vcs(fn: ast.FunctionDef, keys_param: str, order_param: str):
    """-> (term description, ctx, {name: (hyps, goal)})"""
    ctx = Ctx()
    term = eval_function(fn, keys_param, order_param)
    x, y = ctx.x, ctx.y
    perm = mult(x, term, ctx) == ctx.count(x)
    order = z3.Implies(before(x, y, term, ctx), ctx.spec_le(x, y))
    nor = z3.And(*ctx.obligations_noraise) if ctx.obligations_noraise else z3.BoolVal(True)
    det = z3.Implies(x != y, z3.Not(z3.And(before(x, y, term, ctx), before(y, x, term, ctx))))
    return describe(term), ctx, {"perm": perm, "order": order, "noraise": nor, "det": det}
