"""Obligation helpers shared by the property modules.

same_as(...)      a real function body against a specification given as an engine-level summary (the contract that
                  callers use): for every pair (implementation path, specification path) the exit kind, exception
                  class, result and the WHOLE final view of every tracked map must agree.
ensures(...)      a clause over each path of the real body:  requires /\\ pc  =>  clause(path)
raises_only(...)  every raising path raises a class from the allowed set (as a reachability question: a path with
                  another class must be infeasible)
"""
from __future__ import annotations

import z3

from vc.common import Obligation, PROVED, REFUTED, UNDECIDED, ERROR
from vc.pyvc import engine as E
from vc.pyvc.discharge import check_unsat, check_vc, model_str


def value_equal(eng, pa: E.Path, pb: E.Path):
    va, vb = pa.value, pb.value
    va, vb = eng.unbox_known(va, pa.state), eng.unbox_known(vb, pb.state)
    if isinstance(va, E.VNone) and isinstance(vb, E.VNone):
        return z3.BoolVal(True)
    if isinstance(va, E.VBool) and isinstance(vb, E.VBool):
        return va.z == vb.z
    if isinstance(va, E.VTuple) and isinstance(vb, E.VTuple):
        if len(va.items) != len(vb.items):
            return z3.BoolVal(False)
        return z3.And(*[eng.box(x, pa.state) == eng.box(y, pb.state) for x, y in zip(va.items, vb.items)]) if va.items else z3.BoolVal(True)
    try:
        return eng.box(va, pa.state) == eng.box(vb, pb.state)
    except E.Undecided:
        return z3.BoolVal(False)


def outcome_equal(eng, pa: E.Path, pb: E.Path, maps):
    """maps: list of (addr_in_impl_state, addr_in_spec_state)"""
    if pa.kind != pb.kind:
        return z3.BoolVal(False)
    conj = [E.same_view(pa.state.heap[a], pb.state.heap[b]) for a, b in maps]
    if pa.kind == "raise":
        conj.append(z3.BoolVal(pa.value.cls == pb.value.cls))
    else:
        conj.append(value_equal(eng, pa, pb))
    return z3.And(*conj)


def fold_status(ob: Obligation, status, secs, info, what, terms=None):
    ob.seconds += secs
    if status == "proved":
        return
    if status in ("refuted", "shape"):
        if ob.status != REFUTED:
            ob.status = REFUTED
            ob.shape_only = status == "shape"
            kind = "z3 model" if status == "refuted" else "z3 model of the ground instances (shape; needs native confirmation)"
            ob.detail = f"{what}: {kind} {model_str(info, terms or {})}"
            ob.witness_model = model_str(info, terms or {})
    elif ob.status == PROVED:
        ob.status = UNDECIDED
        ob.detail = f"{what}: {str(info)[:300]}"


def same_as(eng, oid, function, lines, impl_paths, spec_paths, maps, timeout_ms, terms=None, extra_hyps=()):
    ob = Obligation(oid, function, "z3", PROVED, lines=lines,
                    detail=f"{len(impl_paths)} implementation paths x {len(spec_paths)} specification paths")
    und = [p for p in impl_paths + spec_paths if p.kind == "undecided"]
    if und:
        ob.status, ob.detail = UNDECIDED, f"outside subset: {und[0].value}"
        return ob
    if not impl_paths or not spec_paths:
        ob.status, ob.detail = ERROR, "no paths"
        return ob
    for pa in impl_paths:
        for pb in spec_paths:
            goal = outcome_equal(eng, pa, pb, maps)
            status, secs, info = check_vc(eng.axioms, [pa.pc, pb.pc, *extra_hyps], goal, timeout_ms)
            fold_status(ob, status, secs, info,
                        f"implementation exit {pa.kind}{'(' + pa.value.cls + ')' if pa.kind == 'raise' else ''} vs "
                        f"specification exit {pb.kind}{'(' + pb.value.cls + ')' if pb.kind == 'raise' else ''}", terms)
            if ob.status == REFUTED:
                return ob
    return ob


def ensures(eng, oid, function, lines, paths, clause, timeout_ms, terms=None, extra_hyps=(), kinds=("ret",)):
    """clause(path) -> z3 Bool (or None to skip the path)."""
    ob = Obligation(oid, function, "z3", PROVED, lines=lines)
    n = 0
    for pa in paths:
        if pa.kind == "undecided":
            ob.status, ob.detail = UNDECIDED, f"outside subset: {pa.value}"
            return ob
        if pa.kind not in kinds:
            continue
        goal = clause(pa)
        if goal is None:
            continue
        n += 1
        status, secs, info = check_vc(eng.axioms, [pa.pc, *extra_hyps], goal, timeout_ms)
        fold_status(ob, status, secs, info, f"path #{n} ({pa.kind})", terms)
        if ob.status == REFUTED:
            return ob
    ob.detail = ob.detail or f"{n} paths"
    if n == 0 and not paths:
        ob.status, ob.detail = ERROR, "no paths generated"
    return ob


def raises_only(eng, oid, function, lines, paths, allowed, timeout_ms, terms=None, extra_hyps=()):
    """Every feasible raising path raises a subclass of one of `allowed`."""
    ob = Obligation(oid, function, "z3", PROVED, lines=lines)
    n = 0
    for pa in paths:
        if pa.kind == "undecided":
            ob.status, ob.detail = UNDECIDED, f"outside subset: {pa.value}"
            return ob
        if pa.kind != "raise":
            continue
        n += 1
        if any(eng.lat.issub(pa.value.cls, a) for a in allowed):
            continue
        # an undocumented exception class: the path must be infeasible
        status, secs, info = check_vc(eng.axioms, [pa.pc, *extra_hyps], z3.BoolVal(False), timeout_ms)
        fold_status(ob, status, secs, info, f"path raising {pa.value.cls} ({pa.value.info}) is feasible", terms)
        if ob.status == REFUTED:
            ob.exc_class = pa.value.cls
            return ob
    ob.detail = ob.detail or f"{n} raising paths, all within {sorted(allowed)}"
    return ob
