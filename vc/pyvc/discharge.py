"""Discharging verification conditions: z3 first, cvc5 takes z3's unknowns (DESIGN.md 3.1).

A VC is  axioms /\\ hyps  =>  goal ; it is *proved* when  axioms /\\ hyps /\\ not goal  is unsat.
`unknown` / timeout never become a refutation.
"""
from __future__ import annotations

import os
import subprocess
import tempfile
import time

import z3

TIMEOUT_MS = {"quick": 20000, "thorough": 60000}


def check_unsat(axioms, hyps, goal, timeout_ms=20000, use_cvc5=True, seed=7):
    """-> (status, seconds, info) with status in proved/refuted/undecided; info = model (z3) or reason string."""
    s = z3.Solver()
    s.set("timeout", timeout_ms)
    s.set("random_seed", seed)
    s.add(*axioms)
    s.add(*hyps)
    s.add(z3.Not(goal))
    t = time.time()
    r = s.check()
    dt = time.time() - t
    if r == z3.unsat:
        return "proved", dt, "z3 unsat"
    if r == z3.sat:
        return "refuted", dt, s.model()
    reason = s.reason_unknown()
    if use_cvc5:
        st, dt2, info = cvc5_check(s.to_smt2(), timeout_ms)
        if st == "unsat":
            return "proved", dt + dt2, "cvc5 unsat (z3: %s)" % reason
        return "undecided", dt + dt2, f"z3 unknown ({reason}); cvc5 {st} {info}"
    return "undecided", dt, f"z3 unknown ({reason})"


def _index_terms(fs):
    """String-sorted index terms of array selects/stores occurring in the formulas (instantiation candidates)."""
    seen, out, todo = set(), [], list(fs)
    while todo:
        f = todo.pop()
        if f.get_id() in seen:
            continue
        seen.add(f.get_id())
        if z3.is_quantifier(f):
            continue
        if z3.is_app(f):
            k = f.decl().kind()
            if k in (z3.Z3_OP_SELECT, z3.Z3_OP_STORE) and f.num_args() >= 2 and f.arg(1).sort() == z3.StringSort():
                t = f.arg(1)
                if t.get_id() not in {x.get_id() for x in out} and not z3.is_var(t):
                    out.append(t)
            todo.extend(f.children())
    return out


def _split_q(fs):
    g, q = [], []
    for f in fs:
        if z3.is_and(f) and not z3.is_quantifier(f):
            a, b = _split_q(f.children())
            g += a
            q += b
        elif z3.is_quantifier(f):
            q.append(f)
        else:
            g.append(f)
    return g, q


def _instances(q, terms):
    out = []
    if not (z3.is_quantifier(q) and q.is_forall() and q.num_vars() == 1):
        return out
    for t in terms:
        if t.sort() == q.var_sort(0):
            out.append(z3.substitute_vars(q.body(), t))
    return out


def check_vc(axioms, hyps, goal, timeout_ms=20000, seed=7):
    """Discharge  axioms /\\ hyps => goal  when hyps/axioms contain universally quantified facts.

    1. quantifier-free attempt: quantified facts are replaced by their ground instances at the array index terms of
       the VC.  unsat => proved (fewer hypotheses were enough).  sat => only a SHAPE (the model may violate an
       uninstantiated instance): go on.
    2. full attempt with the quantifiers.  unsat => proved.  sat => refuted.
    3. if the full attempt is unknown and step 1 gave a model: status 'shape' (candidate refutation; the caller must
       confirm it natively before it counts).  Otherwise undecided.
    """
    g_ax, q_ax = _split_q(list(axioms))
    g_h, q_h = _split_q(list(hyps))
    neg = z3.Not(goal)
    qs = q_ax + q_h
    t0 = time.time()
    shape = None
    terms = _index_terms(g_ax + g_h + [neg])
    s = z3.Solver()
    s.set("timeout", min(timeout_ms, 10000))
    s.set("random_seed", seed)
    s.add(*g_ax)
    s.add(*g_h)
    for q in qs:
        s.add(*_instances(q, terms))
    goal_has_q = any(z3.is_quantifier(x) for x in _subterms_q(neg))
    if not goal_has_q:
        s.add(neg)
        r = s.check()
        if r == z3.unsat:
            return "proved", time.time() - t0, "z3 unsat (ground instances)"
        if r == z3.sat:
            shape = s.model()
            if not qs:
                return "refuted", time.time() - t0, shape
    st, dt, info = check_unsat(axioms, hyps, goal, timeout_ms if shape is None else min(timeout_ms, 3000), use_cvc5=shape is None, seed=seed)
    if st in ("proved", "refuted"):
        return st, time.time() - t0, info
    if shape is not None:
        return "shape", time.time() - t0, shape
    return st, time.time() - t0, info


def _subterms_q(f):
    seen, todo = set(), [f]
    while todo:
        x = todo.pop()
        if x.get_id() in seen:
            continue
        seen.add(x.get_id())
        yield x
        if z3.is_quantifier(x):
            continue
        todo.extend(x.children())


def cvc5_check(smt2: str, timeout_ms: int):
    """Run the cvc5 binary on an SMT-LIB dump.  Only `unsat` is ever used as a verdict."""
    t = time.time()
    try:
        with tempfile.NamedTemporaryFile("w", suffix=".smt2", delete=False) as f:
            f.write("(set-logic ALL)\n" + smt2)
            path = f.name
        try:
            p = subprocess.run(["/usr/bin/cvc5", "--strings-exp", f"--tlimit={timeout_ms}", path],
                               capture_output=True, text=True, timeout=timeout_ms / 1000 + 5)
            out = (p.stdout or "").strip().splitlines()
            verdict = out[0].strip() if out else "no-output"
            return verdict, time.time() - t, (p.stderr or "")[:200]
        finally:
            os.unlink(path)
    except Exception as e:      # cvc5 missing, timeout, parse error: undecided, never a verdict
        return "error", time.time() - t, repr(e)[:200]


def model_str(m, terms: dict) -> dict:
    out = {}
    if not isinstance(m, z3.ModelRef):
        return out
    for name, t in terms.items():
        try:
            v = m.eval(t, model_completion=True)
            if z3.is_string_value(v):
                out[name] = v.as_string()
            elif z3.is_int_value(v):
                out[name] = v.as_long()
            elif z3.is_true(v) or z3.is_false(v):
                out[name] = z3.is_true(v)
            else:
                out[name] = str(v)
        except Exception as e:
            out[name] = f"<{e}>"
    return out
