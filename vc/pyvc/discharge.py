"""Discharging verification conditions: z3 first, cvc5 takes z3's unknowns (DESIGN.md 3.1).

A VC is  axioms /\\ hyps  =>  goal ; it is *proved* when  axioms /\\ hyps /\\ not goal  is unsat.
`unknown` / timeout never become a refutation.
"""
from __future__ import annotations

import os
import subprocess
import tempfile
import time

import z3

TIMEOUT_MS = {"quick": 20000, "thorough": 60000}


def check_unsat(axioms, hyps, goal, timeout_ms=20000, use_cvc5=True, seed=7):
    """-> (status, seconds, info) with status in proved/refuted/undecided; info = model (z3) or reason string."""
    s = z3.Solver()
    s.set("timeout", timeout_ms)
    s.set("random_seed", seed)
    s.add(*axioms)
    s.add(*hyps)
    s.add(z3.Not(goal))
    t = time.time()
    r = s.check()
    dt = time.time() - t
    if r == z3.unsat:
        return "proved", dt, "z3 unsat"
    if r == z3.sat:
        return "refuted", dt, s.model()
    reason = s.reason_unknown()
    if use_cvc5:
        st, dt2, info = cvc5_check(s.to_smt2(), timeout_ms)
        if st == "unsat":
            return "proved", dt + dt2, "cvc5 unsat (z3: %s)" % reason
        return "undecided", dt + dt2, f"z3 unknown ({reason}); cvc5 {st} {info}"
    return "undecided", dt, f"z3 unknown ({reason})"


def cvc5_check(smt2: str, timeout_ms: int):
    """Run the cvc5 binary on an SMT-LIB dump.  Only `unsat` is ever used as a verdict."""
    t = time.time()
    try:
        with tempfile.NamedTemporaryFile("w", suffix=".smt2", delete=False) as f:
            f.write("(set-logic ALL)\n" + smt2)
            path = f.name
        try:
            p = subprocess.run(["/usr/bin/cvc5", "--strings-exp", f"--tlimit={timeout_ms}", path],
                               capture_output=True, text=True, timeout=timeout_ms / 1000 + 5)
            out = (p.stdout or "").strip().splitlines()
            verdict = out[0].strip() if out else "no-output"
            return verdict, time.time() - t, (p.stderr or "")[:200]
        finally:
            os.unlink(path)
    except Exception as e:      # cvc5 missing, timeout, parse error: undecided, never a verdict
        return "error", time.time() - t, repr(e)[:200]


def model_str(m, terms: dict) -> dict:
    out = {}
    if not isinstance(m, z3.ModelRef):
        return out
    for name, t in terms.items():
        try:
            v = m.eval(t, model_completion=True)
            if z3.is_string_value(v):
                out[name] = v.as_string()
            elif z3.is_int_value(v):
                out[name] = v.as_long()
            elif z3.is_true(v) or z3.is_false(v):
                out[name] = z3.is_true(v)
            else:
                out[name] = str(v)
        except Exception as e:
            out[name] = f"<{e}>"
    return out
