"""Strings of statically known shape for pyvc (used by the value codecs of C03).

VText(tokens): a string as a sequence of tokens
     ('c', code)     one character; code is a z3 Int (symbolic) or an IntVal
     ('dec', n)      the decimal numeral str(n) of a symbolic integer n >= 0 (variable width, at least one digit)
Fixed-width fields f"{n:0W}" become W digit characters 48 + (n div 10^k) mod 10 under the side condition 0 <= n < 10^W
(the other case yields an opaque string).  int() of a token sequence that is provably all digits is the positional sum;
of anything else it is under-specified (a fresh integer OR ValueError) -- sound, not complete.  Regular expressions are
matched against token sequences by a small backtracking matcher in which \\d+ consumes a 'dec' token or digit characters.
What of Python this assumes: strings are sequences of code points; str.upper on ASCII letters subtracts 32 and is the
identity on other ASCII characters (non-ASCII input is outside the stated preconditions of the codecs' grammars).
"""
from __future__ import annotations

import ast
import re
from dataclasses import dataclass

import z3

from vc.pyvc import engine as E
from vc.pyvc import seqs
from vc.pyvc.engine import Undecided, V, VBool, VExc, VInt, VNone, VRef, VStr, VTuple, VTd


@dataclass
class VText(V):
    toks: list

    def fixed(self):
        return all(t[0] == "c" for t in self.toks)

    def __len__(self):
        if not self.fixed():
            raise Undecided("length of a string with a variable-width numeral")
        return len(self.toks)


def lit(s: str) -> VText:
    return VText([("c", z3.IntVal(ord(ch))) for ch in s])


def sym_text(name: str, n: int) -> VText:
    return VText([("c", z3.Int(f"{name}_{i}")) for i in range(n)])


def to_text(eng, v, st):
    v = eng.unbox_known(v, st)
    if isinstance(v, VText):
        return v
    if isinstance(v, VStr):
        z = z3.simplify(v.z)
        if z3.is_string_value(z):
            return lit(z.as_string())
    return None


def is_digit(c):
    return z3.And(c >= 48, c <= 57)


def digits_value(codes):
    total = z3.IntVal(0)
    for c in codes:
        total = total * 10 + (c - 48)
    return total


def text_eq(a: VText, b: VText):
    if a.fixed() and b.fixed():
        if len(a.toks) != len(b.toks):
            return z3.BoolVal(False)
        return z3.And(*[x[1] == y[1] for x, y in zip(a.toks, b.toks)]) if a.toks else z3.BoolVal(True)
    raise Undecided("comparison of strings with variable-width numerals")


class CodecEngine(seqs.SeqEngine):
    def __init__(self, *a, **kw):
        super().__init__(*a, **kw)
        self.regexes = {}           # module-level name -> pattern string

    # -- literals / f-strings ---------------------------------------------------------------------------
    def ev_Constant(self, e, st):
        if isinstance(e.value, (str, bytes)):
            s = e.value.decode("latin-1") if isinstance(e.value, bytes) else e.value
            return [(st, lit(s))]
        return super().ev_Constant(e, st)

    def ev_JoinedStr(self, e, st):
        results = [(st, [])]
        for part in e.values:
            nxt = []
            for s, toks in results:
                if toks is None:
                    nxt.append((s, None))
                    continue
                if isinstance(part, ast.Constant):
                    nxt.append((s, toks + lit(part.value).toks))
                    continue
                spec = None
                if part.format_spec is not None:
                    spec = "".join(x.value for x in part.format_spec.values if isinstance(x, ast.Constant))
                for s2, v in self.ev(part.value, s):
                    if isinstance(v, VExc):
                        nxt.append((s2, None))
                        continue
                    v = self.unbox_known(v, s2)
                    t = to_text(self, v, s2)
                    if t is not None and not spec:
                        nxt.append((s2, toks + t.toks))
                    elif isinstance(v, VInt) and spec and re.fullmatch(r"0\d", spec):
                        w = int(spec[1])
                        for s3, ok in self.split(s2, z3.And(v.z >= 0, v.z < 10 ** w)):
                            if ok:
                                ds = [("c", 48 + (v.z / (10 ** (w - 1 - k))) % 10) for k in range(w)]
                                nxt.append((s3, toks + ds))
                            else:
                                nxt.append((s3, None))       # wider than the field: opaque
                    elif isinstance(v, VInt) and not spec:
                        for s3, ok in self.split(s2, v.z >= 0):
                            nxt.append((s3, toks + [("dec", v.z)] if ok else None))
                    else:
                        nxt.append((s2, None))
            results = nxt
        return [(s, VText(t) if t is not None else VStr(E.fresh("fstr", E.S))) for s, t in results]

    # -- operators --------------------------------------------------------------------------------------
    def binop(self, op, a, b, st):
        ta, tb = to_text(self, a, st), to_text(self, b, st)
        if isinstance(op, ast.Add) and ta is not None and tb is not None:
            return [(st, VText(ta.toks + tb.toks))]
        if isinstance(op, ast.Mod) and ta is not None and ta.fixed():
            s = "".join(chr(z3.simplify(c[1]).as_long()) for c in ta.toks if z3.is_int_value(z3.simplify(c[1])))
            if len(s) == len(ta.toks) and s.count("%s") == 1 and tb is not None:
                pre, post = s.split("%s")
                return [(st, VText(lit(pre).toks + tb.toks + lit(post).toks))]
        return super().binop(op, a, b, st)

    def py_eq(self, a, b, st):
        ta, tb = to_text(self, a, st), to_text(self, b, st)
        if ta is not None and tb is not None:
            return text_eq(ta, tb)
        return super().py_eq(a, b, st)

    def truth(self, v, st):
        if isinstance(v, VText):
            if v.fixed():
                return z3.BoolVal(len(v.toks) > 0)
            return z3.BoolVal(True)
        return super().truth(v, st)

    def contains(self, container, item, st):
        tc, ti = to_text(self, container, st), to_text(self, item, st)
        if tc is not None and ti is not None and tc.fixed() and ti.fixed() and len(ti.toks) == 1:
            return [(st, z3.Or(*[c[1] == ti.toks[0][1] for c in tc.toks]) if tc.toks else z3.BoolVal(False))]
        return super().contains(container, item, st)

    def ev_Subscript(self, e, st):
        if isinstance(e.slice, ast.Slice):
            out = []
            for s, base in self.ev(e.value, st):
                if isinstance(base, VExc):
                    out.append((s, base))
                    continue
                t = to_text(self, base, s)
                if t is None or not t.fixed() or e.slice.step is not None:
                    raise Undecided("slice of a string of unknown shape")
                lo = ast.literal_eval(e.slice.lower) if e.slice.lower is not None else None
                hi = ast.literal_eval(e.slice.upper) if e.slice.upper is not None else None
                out.append((s, VText(t.toks[slice(lo, hi)])))
            return out
        return super().ev_Subscript(e, st)

    def getattr(self, v, name, st):
        if isinstance(v, VText):
            return [(st, E.VBound(v, name))]
        return super().getattr(v, name, st)

    def call_method(self, obj, name, args, kwargs, st):
        if isinstance(obj, VText):
            if name in ("encode", "decode"):
                return [(st, obj)]
            if name == "upper":
                if not obj.fixed():
                    return [(st, obj)]
                return [(st, VText([("c", z3.If(z3.And(c[1] >= 97, c[1] <= 122), c[1] - 32, c[1])) for c in obj.toks]))]
            if name == "startswith":
                a = self.unbox_known(args[0], st)
                cands = a.items if isinstance(a, VTuple) else [a]
                conds = []
                for cnd in cands:
                    t = to_text(self, cnd, st)
                    if t is None or not t.fixed() or not obj.fixed():
                        raise Undecided("startswith on unknown shapes")
                    if len(t.toks) > len(obj.toks):
                        conds.append(z3.BoolVal(False))
                    else:
                        conds.append(z3.And(*[x[1] == y[1] for x, y in zip(obj.toks, t.toks)]) if t.toks else z3.BoolVal(True))
                return [(st, VBool(z3.Or(*conds)))]
            if name == "split":
                t = to_text(self, args[0], st)
                if t is None or len(t.toks) != 1 or not obj.fixed():
                    raise Undecided("split on unknown shapes")
                # split positions must be decidable: the separator code is compared with each character
                parts, cur, states = [], [], [(st, [[]])]
                for c in obj.toks:
                    nxt = []
                    for s, segs in states:
                        for s2, issep in self.split(s, c[1] == t.toks[0][1]):
                            if issep:
                                nxt.append((s2, segs + [[]]))
                            else:
                                nxt.append((s2, segs[:-1] + [segs[-1] + [c]]))
                    states = nxt
                return [(s, E.VList(s.alloc(E.ListObj([VText(x) for x in segs])))) for s, segs in states]
            raise Undecided(f"str.{name} on a shaped string")
        return super().call_method(obj, name, args, kwargs, st)


def b_int_text(eng, st, args, kw):
    v = eng.unbox_known(args[0], st)
    t = to_text(eng, v, st)
    if t is None:
        return seqs.b_int(eng, st, args, kw)
    if len(t.toks) == 1 and t.toks[0][0] == "dec":
        return [(st, VInt(t.toks[0][1]))]
    if not t.fixed():
        raise Undecided("int() of a mixed numeral")
    if not t.toks:
        return [(st, VExc("ValueError", "int('')"))]
    codes = [c[1] for c in t.toks]
    out = []
    for s, ok in eng.split(st, z3.And(*[is_digit(c) for c in codes])):
        if ok:
            out.append((s, VInt(digits_value(codes))))
        else:
            # ' 12', '+1', '1_0', unicode digits ...: some integer, or ValueError (under-specified)
            s2 = s.fork()
            out.append((s, VInt(E.fresh("int_of_text", E.I))))
            out.append((s2, VExc("ValueError", "int() of a non-numeral")))
    return out


def b_str_text(eng, st, args, kw):
    v = eng.unbox_known(args[0], st) if args else lit("")
    if isinstance(v, VText):
        return [(st, v)]
    if isinstance(v, VInt):
        out = []
        for s, ok in eng.split(st, v.z >= 0):
            out.append((s, VText([("dec", v.z)]) if ok else VStr(E.fresh("negnum", E.S))))
        return out
    return E.b_str(eng, st, args, kw)


def b_len_text(eng, st, args, kw):
    v = eng.unbox_known(args[0], st)
    if isinstance(v, VText):
        return [(st, VInt(z3.IntVal(len(v))))]
    return E.b_len(eng, st, args, kw)


def b_abs(eng, st, args, kw):
    v = eng.unbox_known(args[0], st)
    if isinstance(v, VInt):
        return [(st, VInt(z3.If(v.z >= 0, v.z, -v.z)))]
    raise Undecided("abs() of a non-int")


def install_builtins():
    E.BUILTINS["int"] = b_int_text
    E.BUILTINS["str"] = b_str_text
    E.BUILTINS["len"] = b_len_text
    E.BUILTINS["abs"] = b_abs


# ---------------------------------------------------------------------------------------------------
# regular expressions on token sequences

def match_tokens(pattern: str, toks: list, eng, st):
    """re.match(pattern, text) for a token sequence: -> list of (state, groups | None).  Supports literals, classes of
    ASCII characters, \\d, optional / + / * repeats, capturing and non-capturing groups, a final `$`.  A group's value is
    the token sub-sequence it consumed (or None)."""
    import re._parser as sp
    tree = sp.parse(pattern)
    ngroups = tree.state.groups - 1

    def class_pred(items, code):
        conds = []
        neg = False
        for op, av in items:
            if op is sp.NEGATE:
                neg = True
            elif op is sp.LITERAL:
                conds.append(code == av)
            elif op is sp.RANGE:
                conds.append(z3.And(code >= av[0], code <= av[1]))
            elif op is sp.CATEGORY and av is sp.CATEGORY_DIGIT:
                conds.append(is_digit(code))
            else:
                raise Undecided(f"regex class item {op}")
        r = z3.Or(*conds) if conds else z3.BoolVal(False)
        return z3.Not(r) if neg else r

    def m(items, pos, groups, s, k):
        """continuation-passing matcher; k(pos, groups, state) -> list of results"""
        if not items:
            return k(pos, groups, s)
        (op, av), rest = items[0], items[1:]
        if op is sp.LITERAL or op is sp.IN or op is sp.NOT_LITERAL:
            if pos >= len(toks):
                return []
            t = toks[pos]
            if t[0] == "dec":
                # a numeral: its characters are digits
                if op is sp.IN and any(o is sp.CATEGORY and a is sp.CATEGORY_DIGIT for o, a in av):
                    raise Undecided("single digit matched against a numeral")
                return []
            cond = (t[1] == av) if op is sp.LITERAL else (t[1] != av) if op is sp.NOT_LITERAL else class_pred(av, t[1])
            out = []
            for s2, ok in eng.split(s, cond):
                if ok:
                    out += m(rest, pos + 1, groups, s2, k)
            return out
        if op is sp.SUBPATTERN:
            gid, _, _, sub = av
            start = pos

            def after(p2, g2, s2):
                g3 = dict(g2)
                if gid is not None:
                    g3[gid] = toks[start:p2]
                return m(rest, p2, g3, s2, k)
            return m(list(sub), pos, groups, s, after)
        if op is sp.MAX_REPEAT or op is sp.MIN_REPEAT:
            lo, hi, sub = av
            sub = list(sub)
            # \d+ on a numeral token
            is_digits = len(sub) == 1 and sub[0][0] is sp.IN and any(o is sp.CATEGORY and a is sp.CATEGORY_DIGIT for o, a in sub[0][1])
            if is_digits and pos < len(toks) and toks[pos][0] == "dec" and lo <= 1:
                return m(rest, pos + 1, groups, s, k)
            out = []

            def rep(count, p, g, s2):
                res = []
                if hi is sp.MAXREPEAT or count < hi:
                    # greedy: try one more first
                    def again(p2, g2, s3):
                        if p2 == p:
                            return []
                        return rep(count + 1, p2, g2, s3)
                    res += m(sub, p, g, s2.fork(), again)
                if count >= lo:
                    res += m(rest, p, g, s2, k)
                return res
            return rep(0, pos, groups, s)
        if op is sp.AT and av in (sp.AT_END, sp.AT_END_STRING):
            return m(rest, pos, groups, s, k) if pos == len(toks) else []
        if op is sp.BRANCH:
            out = []
            for alt in av[1]:
                out += m(list(alt) + rest, pos, groups, s.fork(), k)
            return out
        raise Undecided(f"regex construct {op}")

    results = m(list(tree), 0, {}, st, lambda p, g, s: [(s, [g.get(i) for i in range(1, ngroups + 1)])])
    # paths on which no alternative matched are not enumerated by a backtracking matcher: the caller must treat the
    # disjunction of the returned path conditions as "matches"; for the token shapes used here splits are decided
    # by constants, so the result is exact
    return results
