"""pyvc -- verification-condition generator for the real Python source (DESIGN.md section 3).

Forward symbolic execution of ONE function at a time over the AST read from /repo, path-splitting at
branches.  Calls are resolved against *contracts* (vc.pyvc.contracts registry), never callee bodies,
except nested closures / lambdas and helpers explicitly registered as `inline`.  The result of running a
function is a list of Path objects (path condition, outcome, final heap); the property modules turn
contract clauses into obligations  requires /\\ pc  =>  clause(outcome)  and discharge them with z3
(cvc5 takes z3's unknowns).

What of Python's semantics the encoding assumes (also listed in every evidence file):
  * int is mathematical; // and % are floor operations (encoded explicitly).
  * str is an SMT sequence of code points; `str.upper` is the uninterpreted function `up` with the axiom
    up(up(x)) = up(x) (checked on all 1,114,112 code points by vc.fin.upper_axioms on every run), string
    literals are folded with CPython's own upper().
  * every other value is a term of the uninterpreted sort Ref with class tag cls_of(r); isinstance is a
    disjunction over the (finite) class lattice read from the source; attribute reads on Ref are
    uninterpreted functions attr_<name>(r) guarded by has_<name>(r).
  * object identity: objects allocated during the execution are distinct from everything that existed
    before (birth stamps).
  * no threads, no monkey-patching, no subclass overrides outside /repo, asserts enabled (no -O).
"""
from __future__ import annotations

import ast
import copy
import itertools
import time
from dataclasses import dataclass, field
from typing import Any, Callable, Optional

import z3

from vc.pyvc import source

# ---------------------------------------------------------------------------------------------------
# sorts and global symbols

S = z3.StringSort()
I = z3.IntSort()
B = z3.BoolSort()
Ref = z3.DeclareSort("Ref")
OptRef = z3.Datatype("OptRef")
OptRef.declare("none")
OptRef.declare("some", ("val", Ref))
OptRef = OptRef.create()

cls_of = z3.Function("cls_of", Ref, I)
born = z3.Function("born", Ref, I)
int_of = z3.Function("int_of", Ref, I)
str_of = z3.Function("str_of", Ref, S)
bool_of = z3.Function("bool_of", Ref, B)
box_int = z3.Function("box_int", I, Ref)
box_str = z3.Function("box_str", S, Ref)
box_td = z3.Function("box_td", I, Ref)          # timedelta from microseconds
td_us = z3.Function("td_us", Ref, I)
truthy = z3.Function("truthy", Ref, B)
up = z3.Function("up", S, S)                     # str.upper
tu = z3.Function("tu", S, S)                     # to_unicode on a key (identity on str, decode on bytes)
NONE = z3.Const("PyNone", Ref)
TRUE = z3.Const("PyTrue", Ref)
FALSE = z3.Const("PyFalse", Ref)

_counter = itertools.count()


def fresh(prefix: str, sort):
    return z3.Const(f"{prefix}!{next(_counter)}", sort)


# ---------------------------------------------------------------------------------------------------
# class lattice

class Lattice:
    """Finite class lattice: builtins + datetime classes + classes read from the repo source."""

    BUILTIN = {
        "object": [], "NoneType": ["object"], "int": ["object"], "bool": ["int"], "str": ["object"],
        "bytes": ["object"], "float": ["object"], "list": ["object"], "tuple": ["object"], "dict": ["object"],
        "set": ["object"], "date": ["object"], "datetime": ["date"], "timedelta": ["object"], "time": ["object"],
        "tzinfo": ["object"], "sentinel": ["object"],
        "OrderedDict": ["dict"],
        "BaseException": ["object"], "Exception": ["BaseException"], "ValueError": ["Exception"],
        "TypeError": ["Exception"], "KeyError": ["LookupError"], "IndexError": ["LookupError"],
        "LookupError": ["Exception"], "AttributeError": ["Exception"], "AssertionError": ["Exception"],
        "OverflowError": ["ArithmeticError"], "ArithmeticError": ["Exception"], "ZeroDivisionError": ["ArithmeticError"],
        "UnicodeError": ["ValueError"], "UnicodeEncodeError": ["UnicodeError"], "UnicodeDecodeError": ["UnicodeError"],
        "StopIteration": ["Exception"], "OSError": ["Exception"], "NotImplementedError": ["RuntimeError"],
        "RuntimeError": ["Exception"], "RecursionError": ["RuntimeError"],
    }

    def __init__(self):
        self.bases: dict[str, list[str]] = {k: list(v) for k, v in self.BUILTIN.items()}
        self.ids: dict[str, int] = {}
        for k in self.bases:
            self.ids[k] = len(self.ids) + 1

    def add(self, name: str, bases: list[str]):
        if name not in self.bases:
            self.bases[name] = [b for b in bases] or ["object"]
            self.ids[name] = len(self.ids) + 1

    def load_module(self, modname: str):
        m = source.module(modname)
        for cname in m.classes:
            bs = [b for b in m.bases(cname)]
            self.add(cname, bs)

    def ancestors(self, name: str) -> set[str]:
        out, todo = set(), [name]
        while todo:
            n = todo.pop()
            if n in out:
                continue
            out.add(n)
            todo.extend(self.bases.get(n, []))
        return out

    def subclasses(self, name: str) -> list[str]:
        return [k for k in self.bases if name in self.ancestors(k)]

    def issub(self, a: str, b: str) -> bool:
        return b in self.ancestors(a)

    def id(self, name: str) -> int:
        return self.ids[name]

    def isinstance_z(self, r, names) -> z3.BoolRef:
        ids = sorted({self.ids[s] for n in names for s in self.subclasses(n)})
        if not ids:
            return z3.BoolVal(False)
        return z3.Or(*[cls_of(r) == i for i in ids])


# ---------------------------------------------------------------------------------------------------
# executor-level values

class V:
    pass


@dataclass
class VInt(V):
    z: Any


@dataclass
class VBool(V):
    z: Any


@dataclass
class VStr(V):
    z: Any


@dataclass
class VNone(V):
    pass


@dataclass
class VRef(V):
    z: Any
    cls: Optional[str] = None      # statically known exact-or-sub class name, when known


@dataclass
class VTd(V):                       # timedelta, microseconds
    us: Any


@dataclass
class VTuple(V):
    items: list


@dataclass
class VList(V):
    addr: int                      # heap address of a ListObj


@dataclass
class VDict(V):                     # a dict display {k: v, ...}: an immutable list of pairs handed to a contract
    items: list


@dataclass
class VObj(V):
    addr: int                      # heap address of a HeapObj


@dataclass
class VMap(V):
    addr: int                      # heap address of a MapObj (CaselessDict view)


@dataclass
class VFunc(V):
    node: Any                      # ast.FunctionDef | ast.Lambda
    env: dict
    bound: Optional[V] = None
    name: str = ""


@dataclass
class VClass(V):
    name: str


@dataclass
class VBuiltin(V):
    name: str
    bound: Optional[V] = None


@dataclass
class VBound(V):                    # bound method resolved through contracts: obj.name(...)
    obj: V
    name: str


@dataclass
class VExc(V):
    cls: str
    info: str = ""


@dataclass
class VSuper(V):
    obj: V


class ListObj:
    def __init__(self, items):
        self.items = list(items)

    def clone(self):
        return ListObj(self.items)


class HeapObj:
    def __init__(self, cls: str, fields: dict, ref=None):
        self.cls, self.fields, self.ref = cls, dict(fields), ref

    def clone(self):
        return HeapObj(self.cls, self.fields, self.ref)


class MapObj:
    """Abstract view of a CaselessDict / OrderedDict: contents array, insertion rank, counter."""

    def __init__(self, arr, rank, ctr, cls="CaselessDict", fields=None, ref=None):
        self.arr, self.rank, self.ctr, self.cls = arr, rank, ctr, cls
        self.fields = dict(fields or {})
        self.ref = ref

    def clone(self):
        return MapObj(self.arr, self.rank, self.ctr, self.cls, self.fields, self.ref)

    @staticmethod
    def fresh(tag: str, cls="CaselessDict", fields=None):
        return MapObj(z3.Const(f"arr_{tag}", z3.ArraySort(S, OptRef)), z3.Const(f"rank_{tag}", z3.ArraySort(S, I)),
                      z3.Int(f"ctr_{tag}"), cls, fields, ref=z3.Const(f"self_{tag}", Ref))


def upper_lit(st, text: str):
    """StringVal(text.upper()) together with the ground fact up(that) == that (CPython's own upper(), idempotent)."""
    u = text.upper()
    z = z3.StringVal(u)
    if u.upper() == u:
        st.assume(up(z) == z)
    return z


def map_present(m: MapObj, k):
    return m.arr[k] != OptRef.none


def map_wf(m: MapObj, now=None):
    """Representation invariant of the view: only upper-case keys, ranks below the counter, values older than `now`."""
    k = z3.Const("k!wf", S)
    body = [up(k) == k, m.rank[k] < m.ctr]
    if now is not None:
        body.append(born(OptRef.val(m.arr[k])) < now)
    try:
        return z3.ForAll([k], z3.Implies(map_present(m, k), z3.And(*body)), patterns=[m.arr[k]])
    except z3.Z3Exception:       # the array term is not pattern material (contains an ite): let z3 choose triggers
        return z3.ForAll([k], z3.Implies(map_present(m, k), z3.And(*body)))


def map_wf_at(m: MapObj, keys, now=None):
    """Ground instances of map_wf at the given key terms (used for refutation queries)."""
    out = []
    for k in keys:
        body = [up(k) == k, m.rank[k] < m.ctr]
        if now is not None:
            body.append(born(OptRef.val(m.arr[k])) < now)
        out.append(z3.Implies(map_present(m, k), z3.And(*body)))
    return out


def same_view(a: MapObj, b: MapObj):
    return z3.And(a.arr == b.arr, a.rank == b.rank, a.ctr == b.ctr)


# ---------------------------------------------------------------------------------------------------
# path state

class Undecided(Exception):
    """Raised when the executor meets something outside its subset; the path is reported undecided."""


class State:
    def __init__(self):
        self.env: dict[str, V] = {}
        self.heap: dict[int, Any] = {}
        self.pc: list = []
        self.qpc: list = []              # quantified hypotheses (kept out of feasibility checks)
        self.now = z3.IntVal(0)          # birth stamp counter (symbolic base + concrete increments)
        self.obls: list = []             # (name, formula) obligations met along the path (callee preconditions, asserts)
        self.notes: list[str] = []
        self.trace: list[str] = []
        self.ghost: dict = {}

    def fork(self) -> "State":
        s = State.__new__(State)
        s.env = dict(self.env)
        s.heap = {a: o.clone() for a, o in self.heap.items()}
        s.pc = list(self.pc)
        s.qpc = list(self.qpc)
        s.now = self.now
        s.obls = list(self.obls)
        s.notes = list(self.notes)
        s.trace = list(self.trace)
        s.ghost = dict(self.ghost)
        return s

    def assume(self, *fs):
        for f in fs:
            if f is None:
                continue
            if z3.is_true(f):
                continue
            if z3.is_quantifier(f):
                self.qpc.append(f)
            else:
                self.pc.append(f)

    def alloc(self, obj) -> int:
        a = next(_counter)
        self.heap[a] = obj
        return a

    def new_ref(self, cls_id: Optional[int], prefix="obj"):
        # deterministic name: allocation index per prefix on this path (so that an implementation run and a
        # specification run that allocate in the same order name the same object identically)
        n = self.ghost.get(("nalloc", prefix), 0)
        self.ghost[("nalloc", prefix)] = n + 1
        r = z3.Const(f"{prefix}@{n}", Ref)
        self.assume(born(r) == self.now)
        self.now = self.now + 1
        if cls_id is not None:
            self.assume(cls_of(r) == cls_id)
        return r


@dataclass
class Path:
    state: State
    kind: str                # 'ret' | 'raise' | 'undecided'
    value: Any = None        # V for ret, VExc for raise, str reason for undecided

    @property
    def pc(self):
        fs = self.state.pc + self.state.qpc
        return z3.And(*fs) if fs else z3.BoolVal(True)


# ---------------------------------------------------------------------------------------------------
# the executor

class Engine:
    def __init__(self, lattice: Lattice, contracts: "Optional[dict]" = None, axioms=None, prune=True,
                 max_paths=4000):
        self.lat = lattice
        self.contracts = contracts or {}      # name -> callable(engine, st, args, kwargs) -> list[(st, V)]
        self.axioms = list(axioms or [])
        self.prune = prune
        self.max_paths = max_paths
        self.globals: dict[str, V] = {}       # module-level names visible to the function under analysis
        self.attr_classes: dict[str, set[str]] = {}   # attribute name -> classes known to have it
        self.noattr_classes = {"NoneType", "int", "bool", "str", "bytes", "float", "list", "tuple", "dict", "set",
                               "sentinel"}
        self.solver_time = 0.0
        self.checks = 0
        self.stats = {"forks": 0, "pruned": 0}
        self.base_axioms()

    # -- axioms -------------------------------------------------------------------------------------
    def base_axioms(self):
        L = self.lat
        x = z3.Const("x!ax", S)
        i = z3.Const("i!ax", I)
        self.axioms += [
            z3.ForAll([x], up(up(x)) == up(x), patterns=[up(x)]),
            cls_of(NONE) == L.id("NoneType"), z3.Not(truthy(NONE)), born(NONE) < 0,
            cls_of(TRUE) == L.id("bool"), cls_of(FALSE) == L.id("bool"), truthy(TRUE), z3.Not(truthy(FALSE)),
            int_of(TRUE) == 1, int_of(FALSE) == 0, TRUE != FALSE, born(TRUE) < 0, born(FALSE) < 0,
            z3.ForAll([i], z3.And(cls_of(box_int(i)) == L.id("int"), int_of(box_int(i)) == i,
                                  truthy(box_int(i)) == (i != 0)), patterns=[box_int(i)]),
            z3.ForAll([x], z3.And(cls_of(box_str(x)) == L.id("str"), str_of(box_str(x)) == x,
                                  truthy(box_str(x)) == (z3.Length(x) > 0)), patterns=[box_str(x)]),
            z3.ForAll([i], z3.And(cls_of(box_td(i)) == L.id("timedelta"), td_us(box_td(i)) == i,
                                  truthy(box_td(i)) == (i != 0)), patterns=[box_td(i)]),
        ]

    # -- solver helpers -----------------------------------------------------------------------------
    def solver(self, timeout_ms=5000, ground_only=False):
        s = z3.Solver()
        s.set("timeout", timeout_ms)
        s.set("random_seed", 7)
        for a in self.axioms:
            if ground_only and z3.is_quantifier(a):
                continue
            s.add(a)
        return s

    def feasible(self, st: State, extra=None) -> bool:
        if not self.prune:
            return True
        s = self.solver(2000, ground_only=True)   # over-approximation: quantified facts are ignored when pruning
        s.add(*st.pc)
        if extra is not None:
            s.add(extra)
        t = time.time()
        r = s.check()
        self.solver_time += time.time() - t
        self.checks += 1
        return r != z3.unsat

    def valid(self, st: State, f, full_timeout_ms=2000) -> bool:
        """Is f implied by the path condition (used only for simplification, never for verdicts)?"""
        g = self.solver(1000, ground_only=True)          # fewer hypotheses: unsat here is unsat with all of them
        g.add(*st.pc)
        g.add(z3.Not(f))
        t = time.time()
        r = g.check()
        self.solver_time += time.time() - t
        self.checks += 1
        if r == z3.unsat:
            return True
        s = self.solver(full_timeout_ms)
        s.add(*st.pc)
        s.add(*st.qpc)
        s.add(z3.Not(f))
        t = time.time()
        r = s.check()
        self.solver_time += time.time() - t
        self.checks += 1
        return r == z3.unsat

    def split(self, st: State, cond) -> list:
        """-> [(state, bool)] for the feasible sides of cond."""
        cond = z3.simplify(cond)
        if z3.is_true(cond):
            return [(st, True)]
        if z3.is_false(cond):
            return [(st, False)]
        out = []
        self.stats["forks"] += 1
        a = st.fork()
        a.assume(cond)
        if self.feasible(a):
            out.append((a, True))
        else:
            self.stats["pruned"] += 1
        b = st
        b.assume(z3.Not(cond))
        if self.feasible(b):
            out.append((b, False))
        else:
            self.stats["pruned"] += 1
        return out

    # -- boxing -------------------------------------------------------------------------------------
    def box(self, v: V, st: State):
        if isinstance(v, VRef):
            return v.z
        if isinstance(v, VNone):
            return NONE
        if isinstance(v, VInt):
            r = box_int(v.z)        # ground instances of the boxing axioms (so quantifier-free queries can use them)
            st.assume(cls_of(r) == self.lat.id("int"), int_of(r) == v.z, truthy(r) == (v.z != 0))
            return r
        if isinstance(v, VStr):
            r = box_str(v.z)
            st.assume(cls_of(r) == self.lat.id("str"), str_of(r) == v.z, truthy(r) == (z3.Length(v.z) > 0))
            return r
        if isinstance(v, VBool):
            return z3.If(v.z, TRUE, FALSE)
        if isinstance(v, VTd):
            r = box_td(v.us)
            st.assume(cls_of(r) == self.lat.id("timedelta"), td_us(r) == v.us, truthy(r) == (v.us != 0))
            return r
        if isinstance(v, (VObj, VMap)):
            o = st.heap[v.addr]
            if o.ref is None:
                o.ref = st.new_ref(self.lat.ids.get(o.cls))
            return o.ref
        if isinstance(v, VList):
            o = st.heap[v.addr]
            if getattr(o, "ref", None) is None:
                o.ref = st.new_ref(self.lat.id("list"), "list")
                st.ghost[("listref", str(o.ref))] = v.addr
            return o.ref
        if isinstance(v, VTuple):
            r = st.new_ref(self.lat.id("tuple"), "tuple")
            st.ghost[("tupleref", str(r))] = v
            return r
        raise Undecided(f"cannot box {type(v).__name__}")

    def unbox_known(self, v: V, st: State) -> V:
        """If a VRef is known (by a cheap syntactic test) to be a boxed primitive, unbox it."""
        if isinstance(v, VRef) and z3.is_app(v.z):
            d = v.z.decl().name()
            if d == "box_int":
                return VInt(v.z.arg(0))
            if d == "box_str":
                return VStr(v.z.arg(0))
            if d == "box_td":
                return VTd(v.z.arg(0))
            if z3.eq(v.z, NONE):
                return VNone()
            key = ("listref", str(v.z))
            if key in st.ghost:
                return VList(st.ghost[key])
            key = ("tupleref", str(v.z))
            if key in st.ghost:
                return st.ghost[key]
        return v

    # -- truthiness ---------------------------------------------------------------------------------
    def truth(self, v: V, st: State):
        v = self.unbox_known(v, st)
        if isinstance(v, VBool):
            return v.z
        if isinstance(v, VInt):
            return v.z != 0
        if isinstance(v, VStr):
            return z3.Length(v.z) > 0
        if isinstance(v, VNone):
            return z3.BoolVal(False)
        if isinstance(v, VTd):
            return v.us != 0
        if isinstance(v, VTuple):
            return z3.BoolVal(len(v.items) > 0)
        if isinstance(v, VList):
            return z3.BoolVal(len(st.heap[v.addr].items) > 0)
        if isinstance(v, VRef):
            return truthy(v.z)
        if isinstance(v, (VObj, VFunc, VClass, VBuiltin, VBound)):
            return z3.BoolVal(True)
        if isinstance(v, VMap):
            o = st.heap[v.addr]
            if self.lat.issub(o.cls, "Component"):
                return z3.BoolVal(True)       # Component.__bool__
            raise Undecided("truthiness of a map view")
        raise Undecided(f"truthiness of {type(v).__name__}")

    # -- equality -----------------------------------------------------------------------------------
    def py_eq(self, a: V, b: V, st: State):
        a, b = self.unbox_known(a, st), self.unbox_known(b, st)
        if isinstance(a, VInt) and isinstance(b, VInt):
            return a.z == b.z
        if isinstance(a, VBool) and isinstance(b, VBool):
            return a.z == b.z
        if isinstance(a, VStr) and isinstance(b, VStr):
            return a.z == b.z
        if isinstance(a, VNone) or isinstance(b, VNone):
            if isinstance(a, VNone) and isinstance(b, VNone):
                return z3.BoolVal(True)
            o = b if isinstance(a, VNone) else a
            if isinstance(o, VRef):
                return o.z == NONE
            return z3.BoolVal(False)
        if isinstance(a, VTd) and isinstance(b, VTd):
            return a.us == b.us
        if isinstance(a, VTuple) and isinstance(b, VTuple):
            if len(a.items) != len(b.items):
                return z3.BoolVal(False)
            return z3.And(*[self.py_eq(x, y, st) for x, y in zip(a.items, b.items)]) if a.items else z3.BoolVal(True)
        if isinstance(a, VInt) and isinstance(b, VBool):
            return a.z == z3.If(b.z, 1, 0)
        if isinstance(a, VBool) and isinstance(b, VInt):
            return b.z == z3.If(a.z, 1, 0)
        prim = (VInt, VBool, VStr, VTd)
        if isinstance(a, VRef) and isinstance(b, prim):
            a, b = b, a
        if isinstance(a, prim) and isinstance(b, VRef):
            L = self.lat
            if isinstance(a, VStr):
                return z3.And(L.isinstance_z(b.z, ["str"]), str_of(b.z) == a.z)
            if isinstance(a, VInt):
                return z3.And(L.isinstance_z(b.z, ["int"]), int_of(b.z) == a.z)
            if isinstance(a, VTd):
                return z3.And(L.isinstance_z(b.z, ["timedelta"]), td_us(b.z) == a.us)
        if isinstance(a, VRef) and isinstance(b, VRef):
            eqf = z3.Function("py_eq", Ref, Ref, B)
            st.assume(z3.Implies(a.z == b.z, eqf(a.z, b.z)))
            return eqf(a.z, b.z)
        if type(a) is not type(b):
            return z3.BoolVal(False)
        if isinstance(a, VClass):
            return z3.BoolVal(a.name == b.name)           # class objects: identity
        if isinstance(a, (VMap, VObj)) and isinstance(b, (VMap, VObj)):
            # two heap objects of repository classes: identical objects are equal; whether two DISTINCT objects compare equal is
            # whatever their __eq__ says - an uninterpreted, symmetric relation on the addresses (sound for proving: both outcomes)
            if a.addr == b.addr:
                return z3.BoolVal(True)
            lo, hi = sorted((a.addr, b.addr))
            return z3.Function("heap_objects_compare_equal", I, I, B)(z3.IntVal(lo), z3.IntVal(hi))
        raise Undecided(f"== between {type(a).__name__} and {type(b).__name__}")

    def identical(self, a: V, b: V, st: State):
        a, b = self.unbox_known(a, st), self.unbox_known(b, st)
        if isinstance(a, VNone) and isinstance(b, VNone):
            return z3.BoolVal(True)
        if isinstance(a, VNone) or isinstance(b, VNone):
            o = b if isinstance(a, VNone) else a
            if isinstance(o, VRef):
                return o.z == NONE
            return z3.BoolVal(False)
        if isinstance(a, VBool) and isinstance(b, VBool):
            return a.z == b.z
        if isinstance(a, (VObj, VMap, VList)) and isinstance(b, (VObj, VMap, VList)):
            return z3.BoolVal(a.addr == b.addr)
        if isinstance(a, (VRef, VObj, VMap, VList)) and isinstance(b, (VRef, VObj, VMap, VList)):
            return self.box(a, st) == self.box(b, st)
        if isinstance(a, VClass) and isinstance(b, VClass):
            return z3.BoolVal(a.name == b.name)
        # a bool singleton (True / False / None) is never identical to a value of another primitive type
        if (isinstance(a, VBool) and isinstance(b, (VInt, VStr, VTd, VTuple))) or (isinstance(b, VBool) and isinstance(a, (VInt, VStr, VTd, VTuple))):
            return z3.BoolVal(False)
        if isinstance(a, VRef) or isinstance(b, VRef):
            o, p = (a, b) if isinstance(a, VRef) else (b, a)
            if isinstance(p, (VInt, VStr, VTd, VTuple)):
                raise Undecided("`is` between an object and a primitive")
        raise Undecided(f"`is` between {type(a).__name__} and {type(b).__name__}")

    # -- isinstance ---------------------------------------------------------------------------------
    def class_names(self, cv: V, st: State) -> list[str]:
        if isinstance(cv, VClass):
            return [cv.name]
        if isinstance(cv, VTuple):
            out = []
            for it in cv.items:
                out += self.class_names(it, st)
            return out
        raise Undecided("isinstance with a non-class second argument")

    def isinstance_z(self, v: V, names: list[str], st: State):
        v = self.unbox_known(v, st)
        L = self.lat

        def static(cls):
            return z3.BoolVal(any(L.issub(cls, n) for n in names))
        if isinstance(v, VInt):
            return static("int")
        if isinstance(v, VBool):
            return static("bool")
        if isinstance(v, VStr):
            return static("str")
        if isinstance(v, VNone):
            return static("NoneType")
        if isinstance(v, VTd):
            return static("timedelta")
        if isinstance(v, VTuple):
            return static("tuple")
        if isinstance(v, VList):
            return static("list")
        if isinstance(v, (VObj, VMap)):
            return static(st.heap[v.addr].cls)
        if isinstance(v, VRef):
            return L.isinstance_z(v.z, names)
        raise Undecided(f"isinstance of {type(v).__name__}")

    # ===============================================================================================
    # expressions: ev(e, st) -> list[(State, V)]   (V may be VExc: an exception in flight)

    def ev(self, e: ast.expr, st: State) -> list:
        m = getattr(self, "ev_" + type(e).__name__, None)
        if m is None:
            raise Undecided(f"expression {type(e).__name__} outside subset (line {getattr(e, 'lineno', '?')})")
        return m(e, st)

    def ev_seq(self, exprs: list, st: State) -> list:
        """Evaluate left to right; -> list[(State, [V...] | VExc)]"""
        results = [(st, [])]
        for e in exprs:
            nxt = []
            for s, vals in results:
                if isinstance(vals, VExc):
                    nxt.append((s, vals))
                    continue
                for s2, v in self.ev(e, s):
                    nxt.append((s2, v if isinstance(v, VExc) else vals + [v]))
            results = nxt
        return results

    def ev_Constant(self, e, st):
        c = e.value
        if c is None:
            return [(st, VNone())]
        if isinstance(c, bool):
            return [(st, VBool(z3.BoolVal(c)))]
        if isinstance(c, int):
            return [(st, VInt(z3.IntVal(c)))]
        if isinstance(c, str):
            # ground fact about str.upper on this literal, computed by CPython itself
            st.assume(up(z3.StringVal(c)) == z3.StringVal(c.upper()))
            return [(st, VStr(z3.StringVal(c)))]
        raise Undecided(f"constant {c!r}")

    def ev_Name(self, e, st):
        if e.id in st.env:
            return [(st, st.env[e.id])]
        if e.id in self.globals:
            return [(st, self.globals[e.id])]
        if e.id in self.lat.bases:
            return [(st, VClass(e.id))]
        if e.id in BUILTINS:
            return [(st, VBuiltin(e.id))]
        raise Undecided(f"unknown name {e.id}")

    def ev_Tuple(self, e, st):
        return [(s, v if isinstance(v, VExc) else VTuple(v)) for s, v in self.ev_seq(e.elts, st)]

    def ev_List(self, e, st):
        out = []
        for s, v in self.ev_seq(e.elts, st):
            if isinstance(v, VExc):
                out.append((s, v))
            else:
                out.append((s, VList(s.alloc(ListObj(v)))))
        return out

    def ev_Dict(self, e, st):
        if any(k is None for k in e.keys):
            raise Undecided("dict display with ** unpacking")
        n = len(e.keys)
        out = []
        for s, v in self.ev_seq(list(e.keys) + list(e.values), st):
            out.append((s, v if isinstance(v, VExc) else VDict(list(zip(v[:n], v[n:])))))
        return out

    def ev_JoinedStr(self, e, st):
        # f-strings only feed exception messages in the functions under contract: opaque string
        return [(st, VStr(fresh("fstr", S)))]

    def ev_Lambda(self, e, st):
        return [(st, VFunc(e, dict(st.env), None, "<lambda>"))]

    def ev_IfExp(self, e, st):
        out = []
        for s, c in self.ev(e.test, st):
            if isinstance(c, VExc):
                out.append((s, c))
                continue
            for s2, side in self.split(s, self.truth(c, s)):
                out += self.ev(e.body if side else e.orelse, s2)
        return out

    def ev_BoolOp(self, e, st):
        is_and = isinstance(e.op, ast.And)
        results = [(st, None)]
        vals = e.values
        final = []
        for idx, sub in enumerate(vals):
            nxt = []
            for s, _ in results:
                for s2, v in self.ev(sub, s):
                    if isinstance(v, VExc):
                        final.append((s2, v))
                        continue
                    if idx == len(vals) - 1:
                        final.append((s2, v))
                        continue
                    for s3, side in self.split(s2, self.truth(v, s2)):
                        if side != is_and:       # short circuit: and -> falsy stops, or -> truthy stops
                            final.append((s3, v))
                        else:
                            nxt.append((s3, None))
            results = nxt
        return final

    def ev_UnaryOp(self, e, st):
        out = []
        for s, v in self.ev(e.operand, st):
            if isinstance(v, VExc):
                out.append((s, v))
            elif isinstance(e.op, ast.Not):
                out.append((s, VBool(z3.Not(self.truth(v, s)))))
            elif isinstance(e.op, ast.USub):
                v = self.unbox_known(v, s)
                if isinstance(v, VInt):
                    out.append((s, VInt(-v.z)))
                elif isinstance(v, VTd):
                    out.append((s, VTd(-v.us)))
                else:
                    raise Undecided("unary minus on non-number")
            else:
                raise Undecided("unary operator")
        return out

    def ev_Compare(self, e, st):
        out = []
        for s, vals in self.ev_seq([e.left] + list(e.comparators), st):
            if isinstance(vals, VExc):
                out.append((s, vals))
                continue
            # chained comparisons evaluate every operand once; all operands here are side-effect free
            states = [(s, z3.BoolVal(True))]
            for op, a, b in zip(e.ops, vals, vals[1:]):
                nxt = []
                for s2, acc in states:
                    for s3, r in self.compare(op, a, b, s2):
                        if isinstance(r, VExc):
                            out.append((s3, r))
                        else:
                            nxt.append((s3, z3.And(acc, r)))
                states = nxt
            for s2, acc in states:
                out.append((s2, VBool(z3.simplify(acc))))
        return out

    def compare(self, op, a: V, b: V, st: State) -> list:
        if isinstance(op, ast.Eq):
            return [(st, self.py_eq(a, b, st))]
        if isinstance(op, ast.NotEq):
            return [(st, z3.Not(self.py_eq(a, b, st)))]
        if isinstance(op, ast.Is):
            return [(st, self.identical(a, b, st))]
        if isinstance(op, ast.IsNot):
            return [(st, z3.Not(self.identical(a, b, st)))]
        if isinstance(op, (ast.In, ast.NotIn)):
            res = self.contains(b, a, st)
            outl = []
            for s, r in res:
                if isinstance(r, VExc):
                    outl.append((s, r))
                else:
                    outl.append((s, r if isinstance(op, ast.In) else z3.Not(r)))
            return outl
        a, b = self.unbox_known(a, st), self.unbox_known(b, st)
        if isinstance(a, VBool):
            a = VInt(z3.If(a.z, 1, 0))
        if isinstance(b, VBool):
            b = VInt(z3.If(b.z, 1, 0))
        if isinstance(a, VInt) and isinstance(b, VInt):
            x, y = a.z, b.z
        elif isinstance(a, VTd) and isinstance(b, VTd):
            x, y = a.us, b.us
        else:
            hook = self.contracts.get("op:order")
            if hook:
                return hook(self, st, op, a, b)
            raise Undecided(f"ordering between {type(a).__name__} and {type(b).__name__}")
        r = {ast.Lt: x < y, ast.LtE: x <= y, ast.Gt: x > y, ast.GtE: x >= y}[type(op)]
        return [(st, r)]

    def contains(self, container: V, item: V, st: State) -> list:
        container = self.unbox_known(container, st)
        if isinstance(container, VTuple):
            if not container.items:
                return [(st, z3.BoolVal(False))]
            return [(st, z3.Or(*[self.py_eq(item, x, st) for x in container.items]))]
        if isinstance(container, VList):
            items = st.heap[container.addr].items
            if not items:
                return [(st, z3.BoolVal(False))]
            return [(st, z3.Or(*[self.py_eq(item, x, st) for x in items]))]
        if isinstance(container, VStr) and isinstance(item, VStr):
            return [(st, z3.Contains(container.z, item.z))]
        if isinstance(container, VMap):
            res = self.call_method(container, "__contains__", [item], {}, st)
            return [(s, v if isinstance(v, VExc) else self.truth(v, s)) for s, v in res]
        hook = self.contracts.get("op:contains")
        if hook:
            return hook(self, st, container, item)
        raise Undecided(f"`in` on {type(container).__name__}")

    def ev_BinOp(self, e, st):
        out = []
        for s, vals in self.ev_seq([e.left, e.right], st):
            if isinstance(vals, VExc):
                out.append((s, vals))
                continue
            out += self.binop(e.op, vals[0], vals[1], s)
        return out

    def binop(self, op, a: V, b: V, st: State) -> list:
        a, b = self.unbox_known(a, st), self.unbox_known(b, st)
        if isinstance(a, VBool):
            a = VInt(z3.If(a.z, 1, 0))
        if isinstance(b, VBool):
            b = VInt(z3.If(b.z, 1, 0))
        if isinstance(a, VInt) and isinstance(b, VInt):
            x, y = a.z, b.z
            if isinstance(op, ast.Add):
                return [(st, VInt(x + y))]
            if isinstance(op, ast.Sub):
                return [(st, VInt(x - y))]
            if isinstance(op, ast.Mult):
                return [(st, VInt(x * y))]
            if isinstance(op, (ast.FloorDiv, ast.Mod)):
                ys = z3.simplify(y)
                if z3.is_int_value(ys) and ys.as_long() > 0:
                    q, r = floordivmod_const(st, x, ys.as_long())
                    return [(st, VInt(q if isinstance(op, ast.FloorDiv) else r))]
                out = []
                for s, nz in self.split(st, y != 0):
                    if not nz:
                        out.append((s, VExc("ZeroDivisionError")))
                        continue
                    q, r = floordivmod(x, y)
                    out.append((s, VInt(q if isinstance(op, ast.FloorDiv) else r)))
                return out
        if isinstance(a, VStr) and isinstance(b, VStr) and isinstance(op, ast.Add):
            return [(st, VStr(z3.Concat(a.z, b.z)))]
        if isinstance(a, VTd) and isinstance(b, VTd):
            if isinstance(op, ast.Add):
                return [(st, VTd(a.us + b.us))]
            if isinstance(op, ast.Sub):
                return [(st, VTd(a.us - b.us))]
        if isinstance(a, VTd) and isinstance(b, VInt) and isinstance(op, ast.Mult):
            return [(st, VTd(a.us * b.z))]
        if isinstance(a, VInt) and isinstance(b, VTd) and isinstance(op, ast.Mult):
            return [(st, VTd(a.z * b.us))]
        if isinstance(a, VList) and isinstance(b, VList) and isinstance(op, ast.Add):
            items = st.heap[a.addr].items + st.heap[b.addr].items
            return [(st, VList(st.alloc(ListObj(items))))]
        if isinstance(a, VTuple) and isinstance(b, VTuple) and isinstance(op, ast.Add):
            return [(st, VTuple(a.items + b.items))]
        hook = self.contracts.get("op:" + type(op).__name__)
        if hook:
            return hook(self, st, a, b)
        raise Undecided(f"binary {type(op).__name__} on {type(a).__name__}, {type(b).__name__}")

    def ev_Attribute(self, e, st):
        out = []
        for s, v in self.ev(e.value, st):
            if isinstance(v, VExc):
                out.append((s, v))
            else:
                out += self.getattr(v, e.attr, s)
        return out

    def getattr(self, v: V, name: str, st: State) -> list:
        v = self.unbox_known(v, st)
        if isinstance(v, VSuper):
            return [(st, VBound(v, name))]
        hook = self.contracts.get("attr:" + name)
        if hook:
            r = hook(self, st, v)
            if r is not None:
                return r
        if isinstance(v, (VObj, VMap)):
            o = st.heap[v.addr]
            if name in o.fields:
                return [(st, o.fields[name])]
            # class attribute / property / method through contracts
            key = self.find_member(o.cls, name)
            if key is not None:
                kind, target = key
                if kind == "property":
                    return self.call_contract(target + ".fget", [v], {}, st)
                if kind == "const":
                    return [(st, target)]
                return [(st, VBound(v, name))]
            return [(st, VBound(v, name))]
        if isinstance(v, VTd):
            days, rem = floordivmod_const(st, v.us, 86400 * 10 ** 6)
            secs, micro = floordivmod_const(st, rem, 10 ** 6)
            if name == "days":
                return [(st, VInt(days))]
            if name == "seconds":
                return [(st, VInt(secs))]
            if name == "microseconds":
                return [(st, VInt(micro))]
        if isinstance(v, (VStr, VList, VTuple, VInt)):
            return [(st, VBound(v, name))]
        if isinstance(v, VNone):
            return [(st, VExc("AttributeError", f"None.{name}"))]
        if isinstance(v, VRef) and name in ("days", "seconds", "microseconds"):
            out = []
            for s, istd in self.split(st, self.lat.isinstance_z(v.z, ["timedelta"])):
                if istd:
                    out += self.getattr(VTd(td_us(v.z)), name, s)
                else:
                    out += self.ref_attr(v, name, s)
            return out
        if isinstance(v, VRef):
            if f"ref.{name}" in self.contracts:
                return [(st, VBound(v, name))]
            return self.ref_attr(v, name, st)
        if isinstance(v, VClass):
            key = self.find_member(v.name, name)
            if key is not None and key[0] == "const":
                return [(st, key[1])]
            return [(st, VBound(v, name))]
        raise Undecided(f"attribute {name} of {type(v).__name__}")

    def has_attr_z(self, r, name: str):
        return z3.Function(f"has_{name}", Ref, B)(r)

    def attr_z(self, r, name: str):
        return z3.Function(f"attr_{name}", Ref, Ref)(r)

    def attr_facts(self, r, name: str, st: State):
        """Ground facts about has_<name>(r) from the class lattice."""
        L = self.lat
        have = self.attr_classes.get(name, set())
        yes = sorted({L.ids[s] for c in have if c in L.ids for s in L.subclasses(c)})
        no = sorted({L.ids[s] for c in self.noattr_classes if c in L.ids for s in L.subclasses(c)} - set(yes))
        h = self.has_attr_z(r, name)
        if yes:
            st.assume(z3.Implies(z3.Or(*[cls_of(r) == i for i in yes]), h))
        if no:
            st.assume(z3.Implies(z3.Or(*[cls_of(r) == i for i in no]), z3.Not(h)))

    def ref_attr(self, v: VRef, name: str, st: State) -> list:
        self.attr_facts(v.z, name, st)
        out = []
        for s, has in self.split(st, self.has_attr_z(v.z, name)):
            if has:
                out.append((s, VRef(self.attr_z(v.z, name))))
            else:
                out.append((s, VExc("AttributeError", name)))
        return out

    def find_member(self, cls: str, name: str):
        hook = self.contracts.get("member")
        if hook:
            return hook(self, cls, name)
        return None

    def ev_Subscript(self, e, st):
        out = []
        if isinstance(e.slice, ast.Slice):
            raise Undecided("slice")
        for s, vals in self.ev_seq([e.value, e.slice], st):
            if isinstance(vals, VExc):
                out.append((s, vals))
                continue
            out += self.subscript(vals[0], vals[1], s)
        return out

    def subscript(self, c: V, k: V, st: State) -> list:
        c = self.unbox_known(c, st)
        k = self.unbox_known(k, st)
        if isinstance(c, VMap):
            return self.call_method(c, "__getitem__", [k], {}, st)
        if isinstance(c, (VTuple, VList)) and isinstance(k, VInt):
            items = c.items if isinstance(c, VTuple) else st.heap[c.addr].items
            kz = z3.simplify(k.z)
            if z3.is_int_value(kz):
                i = kz.as_long()
                if -len(items) <= i < len(items):
                    return [(st, items[i])]
                return [(st, VExc("IndexError"))]
            hook = self.contracts.get("op:getitem")
            if hook:
                return hook(self, st, c, k)
            raise Undecided("symbolic index")
        hook = self.contracts.get("op:getitem")
        if hook:
            return hook(self, st, c, k)
        raise Undecided(f"subscript on {type(c).__name__}")

    # -- calls --------------------------------------------------------------------------------------
    def ev_Call(self, e, st):
        if any(k.arg is None for k in e.keywords):
            raise Undecided("** arguments")
        if any(isinstance(a, ast.Starred) for a in e.args):
            # f(*t): a tuple / list of statically known length is spread
            out = []
            for s, f in self.ev(e.func, st):
                if isinstance(f, VExc):
                    out.append((s, f))
                    continue
                exprs = [a.value if isinstance(a, ast.Starred) else a for a in e.args]
                for s2, vals in self.ev_seq(exprs + [k.value for k in e.keywords], s):
                    if isinstance(vals, VExc):
                        out.append((s2, vals))
                        continue
                    args = []
                    for a, v in zip(e.args, vals[:len(e.args)]):
                        if isinstance(a, ast.Starred):
                            v = self.unbox_known(v, s2)
                            if isinstance(v, VTuple):
                                args += v.items
                            elif isinstance(v, VList):
                                args += list(s2.heap[v.addr].items)
                            else:
                                raise Undecided("*args of unknown length")
                        else:
                            args.append(v)
                    kwargs = {k.arg: v for k, v in zip(e.keywords, vals[len(e.args):])}
                    out += self.call(f, args, kwargs, s2)
            return out
        # super()
        if isinstance(e.func, ast.Name) and e.func.id == "super" and not e.args:
            return [(st, VSuper(st.env["self"]))]
        out = []
        for s, f in self.ev(e.func, st):
            if isinstance(f, VExc):
                out.append((s, f))
                continue
            for s2, vals in self.ev_seq(list(e.args) + [k.value for k in e.keywords], s):
                if isinstance(vals, VExc):
                    out.append((s2, vals))
                    continue
                args = vals[:len(e.args)]
                kwargs = {k.arg: v for k, v in zip(e.keywords, vals[len(e.args):])}
                out += self.call(f, args, kwargs, s2)
        return out

    def call(self, f: V, args: list, kwargs: dict, st: State) -> list:
        if isinstance(f, VFunc):
            return self.call_function(f, args, kwargs, st)
        if isinstance(f, VBuiltin):
            return BUILTINS[f.name](self, st, args, kwargs)
        if isinstance(f, VBound):
            return self.call_method(f.obj, f.name, args, kwargs, st)
        if isinstance(f, VRef) and "call:ref" in self.contracts:
            return self.contracts["call:ref"](self, st, [f] + list(args), kwargs)
        if isinstance(f, VClass):
            if "new:" + f.name not in self.contracts and f.name in BUILTINS:
                return BUILTINS[f.name](self, st, args, kwargs)
            return self.call_contract("new:" + f.name, args, kwargs, st)
        raise Undecided(f"call of {type(f).__name__}")

    def call_contract(self, name: str, args, kwargs, st: State) -> list:
        c = self.contracts.get(name)
        if c is None:
            raise Undecided(f"no contract for {name}")
        st.trace.append(name)
        return c(self, st, args, kwargs)

    def call_method(self, obj: V, name: str, args, kwargs, st: State) -> list:
        obj = self.unbox_known(obj, st)
        if isinstance(obj, VSuper):
            base = obj.obj
            o = st.heap[base.addr]
            return self.call_contract(f"super:{name}", [base] + args, kwargs, st)
        if isinstance(obj, VStr):
            return STR_METHODS[name](self, st, obj, args, kwargs) if name in STR_METHODS else self._undecided(f"str.{name}")
        if isinstance(obj, VList):
            if name == "append":
                st.heap[obj.addr].items.append(args[0])
                return [(st, VNone())]
            return self._undecided(f"list.{name}")
        if isinstance(obj, (VObj, VMap)):
            cls = st.heap[obj.addr].cls
            for c in self.mro(cls):
                key = f"{c}.{name}"
                if key in self.contracts:
                    st.trace.append(key)
                    return self.contracts[key](self, st, [obj] + args, kwargs)
            return self._undecided(f"no contract for method {cls}.{name}")
        if isinstance(obj, VRef):
            key = f"ref.{name}"
            if key in self.contracts:
                return self.contracts[key](self, st, [obj] + args, kwargs)
            return self._undecided(f"method {name} on opaque object")
        if isinstance(obj, VClass):
            key = f"{obj.name}.{name}"
            for c in self.mro(obj.name):
                key = f"{c}.{name}"
                if key in self.contracts:
                    return self.contracts[key](self, st, [obj] + args, kwargs)
            return self._undecided(f"no contract for {key}")
        return self._undecided(f"method {name} on {type(obj).__name__}")

    def _undecided(self, why):
        raise Undecided(why)

    def mro(self, cls: str) -> list[str]:
        out, todo = [], [cls]
        while todo:
            c = todo.pop(0)
            if c in out:
                continue
            out.append(c)
            todo.extend(self.lat.bases.get(c, []))
        return out

    def call_function(self, f: VFunc, args, kwargs, st: State) -> list:
        node = f.node
        env = dict(f.env)
        a = node.args
        params = [p.arg for p in a.args]
        vals = list(args)
        if f.bound is not None:
            vals = [f.bound] + vals
        if len(vals) > len(params):
            raise Undecided("too many positional arguments")
        for p, v in zip(params, vals):
            env[p] = v
        ndef = len(a.defaults)
        for idx, p in enumerate(params[len(vals):], start=len(vals)):
            if p in kwargs:
                env[p] = kwargs[p]
                continue
            didx = idx - (len(params) - ndef)
            if didx < 0:
                raise Undecided(f"missing argument {p}")
            dres = self.ev(a.defaults[didx], st)
            if len(dres) != 1 or isinstance(dres[0][1], VExc):
                raise Undecided("complex default value")
            env[p] = dres[0][1]
        saved = st.env
        out = []
        if isinstance(node, ast.Lambda):
            st.env = env
            for s, v in self.ev(node.body, st):
                s.env = saved
                out.append((s, v))
            return out
        st.env = env
        for s, sig in self.exec_block(source.strip_docstring(node.body), st):
            s.env = saved
            if sig is None:
                out.append((s, VNone()))
            elif sig[0] == "ret":
                out.append((s, sig[1]))
            elif sig[0] == "raise":
                out.append((s, sig[1]))
            else:
                raise Undecided("break/continue escaped a function")
        return out

    # ===============================================================================================
    # statements: exec_block(stmts, st) -> list[(State, signal)], signal None | ('ret', V) | ('raise', VExc) | ('break',) | ('continue',)

    def exec_block(self, stmts: list, st: State) -> list:
        live = [(st, None)]
        done = []
        for stmt in stmts:
            nxt = []
            for s, _ in live:
                for s2, sig in self.exec_stmt(stmt, s):
                    (nxt if sig is None else done).append((s2, sig))
            live = nxt
            if len(live) + len(done) > self.max_paths:
                raise Undecided("path explosion")
            if not live:
                break
        return done + live

    def exec_stmt(self, stmt, st: State) -> list:
        m = getattr(self, "st_" + type(stmt).__name__, None)
        if m is None:
            raise Undecided(f"statement {type(stmt).__name__} outside subset (line {stmt.lineno})")
        return m(stmt, st)

    def st_Pass(self, stmt, st):
        return [(st, None)]

    def st_Expr(self, stmt, st):
        return [(s, ("raise", v) if isinstance(v, VExc) else None) for s, v in self.ev(stmt.value, st)]

    def st_Return(self, stmt, st):
        if stmt.value is None:
            return [(st, ("ret", VNone()))]
        return [(s, ("raise", v) if isinstance(v, VExc) else ("ret", v)) for s, v in self.ev(stmt.value, st)]

    def st_Assign(self, stmt, st):
        out = []
        for s, v in self.ev(stmt.value, st):
            if isinstance(v, VExc):
                out.append((s, ("raise", v)))
                continue
            results = [(s, None)]
            for tgt in stmt.targets:
                nxt = []
                for s2, _ in results:
                    nxt += self.assign(tgt, v, s2)
                results = nxt
            out += results
        return out

    def st_Delete(self, stmt, st):
        """`del m[k]` on a map view (through the __delitem__ contract)"""
        results = [(st, None)]
        for tgt in stmt.targets:
            if not isinstance(tgt, ast.Subscript):
                raise Undecided("del of something other than a subscript")
            nxt = []
            for s0, sig0 in results:
                if sig0 is not None:
                    nxt.append((s0, sig0))
                    continue
                for s, vals in self.ev_seq([tgt.value, tgt.slice], s0):
                    if isinstance(vals, VExc):
                        nxt.append((s, ("raise", vals)))
                        continue
                    c, k = vals
                    if not isinstance(c, VMap):
                        raise Undecided("del on something other than a map view")
                    for s2, r in self.call_method(c, "__delitem__", [k], {}, s):
                        nxt.append((s2, ("raise", r) if isinstance(r, VExc) else None))
            results = nxt
        return results

    def st_AnnAssign(self, stmt, st):
        if stmt.value is None:
            return [(st, None)]
        fake = ast.Assign(targets=[stmt.target], value=stmt.value, lineno=stmt.lineno)
        return self.st_Assign(fake, st)

    def assign(self, tgt, v: V, st: State) -> list:
        if isinstance(tgt, ast.Name):
            st.env = dict(st.env)
            st.env[tgt.id] = v
            return [(st, None)]
        if isinstance(tgt, (ast.Tuple, ast.List)):
            v = self.unbox_known(v, st)
            if isinstance(v, VTuple):
                items = v.items
            elif isinstance(v, VList):
                items = st.heap[v.addr].items
            else:
                raise Undecided("unpacking a non-tuple")
            if len(items) != len(tgt.elts):
                return [(st, ("raise", VExc("ValueError", "unpack")))]
            results = [(st, None)]
            for t, it in zip(tgt.elts, items):
                nxt = []
                for s, sig in results:
                    if sig is not None:
                        nxt.append((s, sig))
                    else:
                        nxt += self.assign(t, it, s)
                results = nxt
            return results
        if isinstance(tgt, ast.Attribute):
            out = []
            for s, o in self.ev(tgt.value, st):
                if isinstance(o, VExc):
                    out.append((s, ("raise", o)))
                    continue
                out += self.setattr(o, tgt.attr, v, s)
            return out
        if isinstance(tgt, ast.Subscript):
            out = []
            for s, vals in self.ev_seq([tgt.value, tgt.slice], st):
                if isinstance(vals, VExc):
                    out.append((s, ("raise", vals)))
                    continue
                c, k = vals
                if isinstance(c, VMap):
                    for s2, r in self.call_method(c, "__setitem__", [k, v], {}, s):
                        out.append((s2, ("raise", r) if isinstance(r, VExc) else None))
                else:
                    hook = self.contracts.get("op:setitem")
                    if hook is None:
                        raise Undecided("subscript store")
                    for s2, r in hook(self, s, c, k, v):
                        out.append((s2, ("raise", r) if isinstance(r, VExc) else None))
            return out
        raise Undecided("assignment target")

    def setattr(self, o: V, name: str, v: V, st: State) -> list:
        if isinstance(o, (VObj, VMap)):
            h = st.heap[o.addr]
            key = self.find_member(h.cls, name)
            if key is not None and key[0] == "property":
                res = self.call_contract(key[1] + ".fset", [o, v], {}, st)
                return [(s, ("raise", r) if isinstance(r, VExc) else None) for s, r in res]
            h.fields[name] = v
            st.ghost.setdefault("writes", [])
            st.ghost["writes"] = st.ghost["writes"] + [(o.addr, name)]
            return [(st, None)]
        hook = self.contracts.get("op:setattr")
        if hook:
            return hook(self, st, o, name, v)
        raise Undecided(f"attribute store on {type(o).__name__}")

    def st_AugAssign(self, stmt, st):
        load = copy.copy(stmt.target)
        load.ctx = ast.Load()
        be = ast.BinOp(left=load, op=stmt.op, right=stmt.value, lineno=stmt.lineno)
        # list += list mutates in place
        out = []
        for s, vals in self.ev_seq([load, stmt.value], st):
            if isinstance(vals, VExc):
                out.append((s, ("raise", vals)))
                continue
            a, b = vals
            if isinstance(a, VList) and isinstance(stmt.op, ast.Add):
                b = self.unbox_known(b, s)
                if isinstance(b, VList):
                    s.heap[a.addr].items.extend(s.heap[b.addr].items)
                    out.append((s, None))
                    continue
                hook = self.contracts.get("op:list_iadd")
                if hook:
                    for s2, r in hook(self, s, a, b):
                        out.append((s2, ("raise", r) if isinstance(r, VExc) else None))
                    continue
                raise Undecided("list += non-list")
            for s2, r in self.binop(stmt.op, a, b, s):
                if isinstance(r, VExc):
                    out.append((s2, ("raise", r)))
                else:
                    out += self.assign(stmt.target, r, s2)
        return out

    def st_If(self, stmt, st):
        out = []
        for s, c in self.ev(stmt.test, st):
            if isinstance(c, VExc):
                out.append((s, ("raise", c)))
                continue
            for s2, side in self.split(s, self.truth(c, s)):
                out += self.exec_block(stmt.body if side else stmt.orelse, s2)
        return out

    def st_Raise(self, stmt, st):
        if stmt.exc is None:
            cur = st.ghost.get("handling")
            if cur is None:
                raise Undecided("bare raise outside handler")
            return [(st, ("raise", cur))]
        e = stmt.exc
        if isinstance(e, ast.Call) and isinstance(e.func, ast.Name):
            name = e.func.id
        elif isinstance(e, ast.Name):
            name = e.id
        else:
            raise Undecided("raise of a computed exception")
        if name not in self.lat.bases:
            raise Undecided(f"unknown exception class {name}")
        # evaluate arguments for their exceptions / effects (messages are opaque)
        if isinstance(e, ast.Call):
            out = []
            for s, vals in self.ev_seq(list(e.args), st):
                out.append((s, ("raise", vals if isinstance(vals, VExc) else VExc(name))))
            return out
        return [(st, ("raise", VExc(name)))]

    def st_Assert(self, stmt, st):
        out = []
        for s, c in self.ev(stmt.test, st):
            if isinstance(c, VExc):
                out.append((s, ("raise", c)))
                continue
            for s2, side in self.split(s, self.truth(c, s)):
                out.append((s2, None if side else ("raise", VExc("AssertionError"))))
        return out

    def st_Try(self, stmt, st):
        if stmt.finalbody:
            raise Undecided("try/finally")
        out = []
        for s, sig in self.exec_block(stmt.body, st):
            if sig is None:
                out += self.exec_block(stmt.orelse, s) if stmt.orelse else [(s, None)]
                continue
            if sig[0] != "raise":
                out.append((s, sig))
                continue
            exc: VExc = sig[1]
            handled = False
            for h in stmt.handlers:
                names = self.handler_names(h, s)
                if names is None or any(self.lat.issub(exc.cls, n) for n in names):
                    handled = True
                    if h.name:
                        s.env = dict(s.env)
                        s.env[h.name] = VRef(fresh("exc", Ref))
                    prev = s.ghost.get("handling")
                    s.ghost["handling"] = exc
                    for s2, sig2 in self.exec_block(h.body, s):
                        s2.ghost["handling"] = prev
                        out.append((s2, sig2))
                    break
            if not handled:
                out.append((s, sig))
        return out

    def handler_names(self, h, st):
        if h.type is None:
            return None
        if isinstance(h.type, ast.Name):
            return [h.type.id]
        if isinstance(h.type, ast.Tuple):
            return [n.id for n in h.type.elts if isinstance(n, ast.Name)]
        raise Undecided("computed handler type")

    def st_For(self, stmt, st):
        if stmt.orelse:
            hook = self.contracts.get("loop:for-else")
            if hook is None:
                raise Undecided("for/else")
        out = []
        for s, it in self.ev(stmt.iter, st):
            if isinstance(it, VExc):
                out.append((s, ("raise", it)))
                continue
            it = self.unbox_known(it, s)
            if isinstance(it, VTuple):
                items = it.items
            elif isinstance(it, VList):
                items = list(s.heap[it.addr].items)
            else:
                hook = self.contracts.get("loop:" + str(stmt.lineno)) or self.contracts.get("loop:iter")
                if hook is None:
                    raise Undecided(f"for over {type(it).__name__} needs a loop contract")
                out += hook(self, s, stmt, it)
                continue
            live = [(s, None)]
            for item in items:           # concrete length: unroll
                nxt = []
                for s2, _ in live:
                    for s3, sig in self.assign(stmt.target, item, s2):
                        if sig is not None:
                            out.append((s3, sig))
                            continue
                        for s4, sig2 in self.exec_block(stmt.body, s3):
                            if sig2 is None or sig2[0] == "continue":
                                nxt.append((s4, None))
                            elif sig2[0] == "break":
                                out.append((s4, ("broke",)))
                            else:
                                out.append((s4, sig2))
                live = nxt
            for s2, _ in live:
                if stmt.orelse:
                    out += self.exec_block(stmt.orelse, s2)
                else:
                    out.append((s2, None))
        return [(s, None if sig == ("broke",) else sig) for s, sig in out]

    def st_While(self, stmt, st):
        """Hoare rule for `while c: body` with an invariant supplied by the property module:
        contracts['while:invariant'](engine, stmt, state) -> a Python EXPRESSION (ast) over the program variables.
        Generated obligations (collected in state.ghost['while_obls'] as (name, state, goal)):
           entry         the invariant holds when the loop is reached
           preservation  from an arbitrary state (the variables assigned in the body are havocked) in which the invariant and the
                         condition hold, the body re-establishes the invariant
        After the loop: the assigned variables are havocked, the invariant holds and the condition is false.  Exceptions raised by the
        condition or the body leave the loop (from the havocked state).  break / continue / return / else are outside the rule."""
        hook = self.contracts.get("while:invariant")
        if hook is None or stmt.orelse:
            raise Undecided("while loop without an invariant")
        inv_expr = hook(self, stmt, st)
        if inv_expr is None:
            raise Undecided("while loop: no invariant for this loop")
        extra_fn = None
        if isinstance(inv_expr, tuple):          # (expression, function(engine, state) -> further z3 conjunct over the environment)
            inv_expr, extra_fn = inv_expr
        assigned = sorted({n.id for x in stmt.body for n in ast.walk(x) if isinstance(n, ast.Name) and isinstance(n.ctx, ast.Store)})
        for x in stmt.body:
            for n in ast.walk(x):
                if isinstance(n, (ast.Break, ast.Continue, ast.Return)):
                    raise Undecided("while loop with break / continue / return")
        obls = []

        def holds(state, expr):
            out = []
            for s, v in self.ev(expr, state):
                f = z3.BoolVal(False) if isinstance(v, VExc) else self.truth(v, s)
                if extra_fn is not None and not isinstance(v, VExc):
                    f = z3.And(f, extra_fn(self, s))
                out.append((s, f))
            return out

        def havoc(state, tag):
            state.env = dict(state.env)
            for name in assigned:
                if name in state.env and isinstance(state.env[name], (VList, VObj, VMap)):
                    raise Undecided(f"while loop rebinds the heap object {name}")
                state.env[name] = VRef(fresh(f"{name}_{tag}", Ref))
            return state
        for s, f in holds(st.fork(), inv_expr):
            obls.append((f"while@{stmt.lineno}.invariant_holds_on_entry", s, f))
        exits = []
        # preservation
        s1 = havoc(st.fork(), "it")
        for s2, f in holds(s1, inv_expr):
            s2.assume(f)
            for s3, c in self.ev(stmt.test, s2):
                if isinstance(c, VExc):
                    exits.append((s3, ("raise", c)))
                    continue
                for s4, side in self.split(s3, self.truth(c, s3)):
                    if not side:
                        continue
                    for s5, sig in self.exec_block(stmt.body, s4):
                        if sig is None:
                            for s6, g in holds(s5, inv_expr):
                                obls.append((f"while@{stmt.lineno}.invariant_preserved", s6, g))
                        elif sig[0] == "raise":
                            exits.append((s5, sig))
                        else:
                            raise Undecided("while body leaves with " + sig[0])
        # after the loop
        out = []
        s7 = havoc(st, "end")
        for s8, f in holds(s7, inv_expr):
            s8.assume(f)
            for s9, c in self.ev(stmt.test, s8):
                if isinstance(c, VExc):
                    exits.append((s9, ("raise", c)))
                    continue
                for s10, side in self.split(s9, self.truth(c, s9)):
                    if not side:
                        s10.ghost = dict(s10.ghost)
                        out.append((s10, None))
        for s, _ in out + exits:
            s.ghost = dict(s.ghost)
            s.ghost["while_obls"] = s.ghost.get("while_obls", []) + obls
        return out + exits

    def st_Break(self, stmt, st):
        return [(st, ("break",))]

    def st_Continue(self, stmt, st):
        return [(st, ("continue",))]

    def st_FunctionDef(self, stmt, st):
        st.env = dict(st.env)
        f = VFunc(stmt, st.env, None, stmt.name)
        st.env[stmt.name] = f
        f.env = st.env
        return [(st, None)]

    # ===============================================================================================
    # running a function under a contract

    def run(self, node, env: dict, st: State) -> list[Path]:
        """Execute function `node` with parameters bound in env; returns all paths."""
        st.env = dict(env)
        paths = []
        try:
            results = self.exec_block(source.strip_docstring(node.body), st)
        except Undecided as u:
            return [Path(st, "undecided", str(u))]
        for s, sig in results:
            if sig is None:
                paths.append(Path(s, "ret", VNone()))
            elif sig[0] == "ret":
                paths.append(Path(s, "ret", sig[1]))
            elif sig[0] == "raise":
                paths.append(Path(s, "raise", sig[1]))
            else:
                paths.append(Path(s, "undecided", f"signal {sig[0]} escaped"))
        return paths


def floordivmod_const(st, x, c: int):
    """floor division / modulo by a positive constant through fresh quotient and remainder (keeps the VCs linear):
    x = q*c + r, 0 <= r < c  determines q = x // c and r = x % c uniquely."""
    key = ("fdm", x.get_id(), c)
    if key in st.ghost:
        return st.ghost[key]
    xs = z3.simplify(x)
    if z3.is_int_value(xs):
        v = xs.as_long()
        res = (z3.IntVal(v // c), z3.IntVal(v % c))
    else:
        q, r = fresh("q", I), fresh("r", I)
        st.assume(x == q * c + r, r >= 0, r < c)
        res = (q, r)
    st.ghost[key] = res
    return res


def floordivmod(x, y):
    """Python floor division / modulo from SMT-LIB's Euclidean div/mod (y != 0)."""
    q = x / y          # z3 Int division: Euclidean (remainder non-negative)
    r = x % y
    # Euclidean: x = q*y + r, 0 <= r < |y|.  Floor: remainder has the sign of y.
    adj = z3.And(r != 0, y < 0)
    return z3.If(adj, q - 1, q), z3.If(adj, r + y, r)


# ---------------------------------------------------------------------------------------------------
# builtins

def b_isinstance(eng: Engine, st, args, kw):
    names = eng.class_names(args[1], st)
    return [(st, VBool(eng.isinstance_z(args[0], names, st)))]


def b_getattr(eng: Engine, st, args, kw):
    name = z3.simplify(args[1].z)
    if not z3.is_string_value(name):
        raise Undecided("getattr with a symbolic name")
    res = eng.getattr(args[0], name.as_string(), st)
    if len(args) == 3:
        return [(s, args[2] if isinstance(v, VExc) and v.cls == "AttributeError" else v) for s, v in res]
    return res


def b_hasattr(eng: Engine, st, args, kw):
    name = z3.simplify(args[1].z).as_string()
    v = eng.unbox_known(args[0], st)
    if isinstance(v, VRef):
        eng.attr_facts(v.z, name, st)
        return [(st, VBool(eng.has_attr_z(v.z, name)))]
    res = eng.getattr(v, name, st)
    return [(s, VBool(z3.BoolVal(not isinstance(r, VExc)))) for s, r in res]


def b_object(eng: Engine, st, args, kw):
    return [(st, VRef(st.new_ref(eng.lat.id("sentinel"), "sentinel"), "sentinel"))]


def b_len(eng: Engine, st, args, kw):
    v = eng.unbox_known(args[0], st)
    if isinstance(v, VTuple):
        return [(st, VInt(z3.IntVal(len(v.items))))]
    if isinstance(v, VList):
        total = z3.IntVal(0)
        for x in st.heap[v.addr].items:
            seg = getattr(x, "seg", None)            # a segment stored by vc/pyvc/seqs.py (symbolic number of elements)
            if seg is None:
                total = total + 1
            elif seg[0] == "one":
                total = total + 1
            elif seg[0] == "range" and not isinstance(seg[4], list):
                total = total + z3.If(seg[2] >= seg[1], seg[2] - seg[1], 0)
            else:
                raise Undecided("len of a list with conditional / nested segments")
        return [(st, VInt(z3.simplify(total)))]
    if isinstance(v, VStr):
        return [(st, VInt(z3.Length(v.z)))]
    hook = eng.contracts.get("builtin:len")
    if hook:
        return hook(eng, st, args, kw)
    raise Undecided("len")


def b_max(eng: Engine, st, args, kw):
    if len(args) == 2:
        out = []
        for s, r in eng.compare(ast.Gt(), args[1], args[0], st):
            if isinstance(r, VExc):
                out.append((s, r))
                continue
            for s2, side in eng.split(s, r):
                out.append((s2, args[1] if side else args[0]))
        return out
    raise Undecided("max arity")


def b_min(eng: Engine, st, args, kw):
    if len(args) == 2:
        out = []
        for s, r in eng.compare(ast.Lt(), args[1], args[0], st):
            if isinstance(r, VExc):
                out.append((s, r))
                continue
            for s2, side in eng.split(s, r):
                out.append((s2, args[1] if side else args[0]))
        return out
    raise Undecided("min arity")


def b_tuple(eng: Engine, st, args, kw):
    if not args:
        return [(st, VTuple([]))]
    v = eng.unbox_known(args[0], st)
    if isinstance(v, VTuple):
        return [(st, v)]
    if isinstance(v, VList):
        return [(st, VTuple(list(st.heap[v.addr].items)))]
    raise Undecided("tuple()")


def b_list(eng: Engine, st, args, kw):
    if not args:
        return [(st, VList(st.alloc(ListObj([]))))]
    v = eng.unbox_known(args[0], st)
    if isinstance(v, VTuple):
        return [(st, VList(st.alloc(ListObj(v.items))))]
    if isinstance(v, VList):
        return [(st, VList(st.alloc(ListObj(st.heap[v.addr].items))))]
    hook = eng.contracts.get("builtin:list")
    if hook:
        return hook(eng, st, args, kw)
    raise Undecided("list()")


def b_timedelta(eng: Engine, st, args, kw):
    if args:
        names = ["days", "seconds", "microseconds", "milliseconds", "minutes", "hours", "weeks"]
        kw = dict(kw)
        for n, a in zip(names, args):
            kw[n] = a
    unit = {"days": 86400 * 10 ** 6, "seconds": 10 ** 6, "microseconds": 1, "milliseconds": 1000,
            "minutes": 60 * 10 ** 6, "hours": 3600 * 10 ** 6, "weeks": 7 * 86400 * 10 ** 6}
    total = z3.IntVal(0)
    for k, v in kw.items():
        v = eng.unbox_known(v, st)
        if not isinstance(v, VInt):
            raise Undecided("timedelta() with non-int argument")
        total = total + v.z * unit[k]
    return [(st, VTd(z3.simplify(total)))]


def b_str(eng: Engine, st, args, kw):
    v = eng.unbox_known(args[0], st) if args else VStr(z3.StringVal(""))
    if isinstance(v, VStr):
        return [(st, v)]
    return [(st, VStr(fresh("str", S)))]     # opaque text (messages)


def b_type(eng: Engine, st, args, kw):
    v = eng.unbox_known(args[0], st)
    if isinstance(v, (VObj, VMap)):
        return [(st, VClass(st.heap[v.addr].cls))]
    raise Undecided("type()")


BUILTINS: dict[str, Callable] = {
    "isinstance": b_isinstance, "getattr": b_getattr, "hasattr": b_hasattr, "object": b_object, "len": b_len,
    "max": b_max, "min": b_min, "tuple": b_tuple, "list": b_list, "timedelta": b_timedelta, "str": b_str,
    "type": b_type,
}


def m_upper(eng, st, s: VStr, args, kw):
    z = z3.simplify(s.z)
    if z3.is_string_value(z):
        return [(st, VStr(z3.StringVal(z.as_string().upper())))]
    return [(st, VStr(up(s.z)))]


def m_lower(eng, st, s: VStr, args, kw):
    z = z3.simplify(s.z)
    if z3.is_string_value(z):
        return [(st, VStr(z3.StringVal(z.as_string().lower())))]
    lo = z3.Function("lo", S, S)
    return [(st, VStr(lo(s.z)))]


def m_startswith(eng, st, s: VStr, args, kw):
    a = args[0]
    if isinstance(a, VStr):
        return [(st, VBool(z3.PrefixOf(a.z, s.z)))]
    raise Undecided("startswith tuple")


STR_METHODS = {"upper": m_upper, "lower": m_lower, "startswith": m_startswith}


def to_unicode_contract(eng: Engine, st, args, kw):
    v = eng.unbox_known(args[0], st)
    if isinstance(v, VStr):
        z = z3.simplify(v.z)
        if z3.is_string_value(z):
            return [(st, v)]
        if st.ghost.get("raw_keys") and str(v.z) in st.ghost["raw_keys"]:
            return [(st, VStr(tu(v.z)))]
        return [(st, v)]
    raise Undecided("to_unicode on non-string")
