"""Sequences with symbolic length for pyvc: generators (`yield`), `range` with symbolic bounds, comprehensions.

A sequence value is a VSegList: a list of segments
     ('one', v)                        a single element
     ('range', lo, hi, i, v)           the elements v[i] for i = lo .. hi-1 in order (v may mention the bound variable i)
Loop rule for `for x in range(lo, hi)` / iteration over a range segment ("uniform body"): the body is executed ONCE with
a fresh symbolic index lo <= i < hi on the live state; it must exit normally on a single path, must not write to the
heap or rebind outer names, and may only `yield` / produce comprehension elements.  Then iteration k contributes
exactly body[i := k], so the loop's output is the segment ('range', lo, hi, i, element).  Raising paths of the body
become raising paths of the loop ("some iteration raises").
A generator function is executed as the sequence it yields when fully consumed (laziness is dropped: stated).
"""
from __future__ import annotations

import ast
from dataclasses import dataclass

import z3

from vc.pyvc import engine as E
from vc.pyvc.engine import (Undecided, V, VBool, VExc, VInt, VList, VNone, VObj, VRef, VStr, VTuple, ListObj, State)


@dataclass
class VRange(V):
    lo: object
    hi: object


@dataclass
class VSegList(V):
    segs: list


SeqT = z3.DeclareSort("SeqT")


seq_len = z3.Function("seq_len", SeqT, E.I)


@dataclass
class VAbsSeq(V):
    """an abstract sequence given by a term (the result of a recursive call seen through its contract);
    `elem(j)` (optional) gives the executor-level value of its j-th element, 0 <= j < seq_len(z)"""
    z: object
    elem: object = None


class SetObj(ListObj):
    """a set as the log of its add / discard operations (entries: ('add', seg) / ('discard', seg))"""

    def clone(self):
        c = SetObj(self.items)
        return c


@dataclass
class VSet(V):
    addr: int


class SegEntry:
    """a non-singleton segment stored inside a list object (accumulator pattern `lst += ...` / append in a loop)"""

    def __init__(self, seg):
        self.seg = seg


list_len = z3.Function("list_len", E.Ref, E.I)
list_elem = z3.Function("list_elem", E.Ref, E.I, E.Ref)


def heap_free(v):
    return not isinstance(v, (VObj, E.VMap, VList)) and not (isinstance(v, VTuple) and not all(heap_free(x) for x in v.items))


def b_range(eng, st, args, kw):
    vals = [eng.unbox_known(a, st) for a in args]
    if not all(isinstance(v, VInt) for v in vals) or len(vals) > 2:
        raise Undecided("range() with step or non-int arguments")
    if len(vals) == 1:
        return [(st, VRange(z3.IntVal(0), vals[0].z))]
    return [(st, VRange(vals[0].z, vals[1].z))]


def b_int(eng, st, args, kw):
    v = eng.unbox_known(args[0], st)
    if isinstance(v, VInt):
        return [(st, v)]
    if isinstance(v, E.VBool):
        return [(st, VInt(z3.If(v.z, 1, 0)))]
    if isinstance(v, VRef):
        out = []
        for s, ok in eng.split(st, eng.lat.isinstance_z(v.z, ["int"])):
            if ok:
                out.append((s, VInt(E.int_of(v.z))))
            else:
                # int() of a str / other object: a number or ValueError / TypeError (under-specified: both outcomes)
                s2 = s.fork()
                out.append((s, VInt(E.fresh("int", E.I))))
                out.append((s2, VExc("ValueError", "int()")))
        return out
    raise Undecided("int() of unsupported value")


def b_set(eng, st, args, kw):
    if args:
        raise Undecided("set(iterable)")
    return [(st, VSet(st.alloc(SetObj([]))))]


class SeqEngine(E.Engine):
    def __init__(self, *a, **kw):
        super().__init__(*a, **kw)
        E.BUILTINS["range"] = b_range
        E.BUILTINS["int"] = b_int
        E.BUILTINS["set"] = b_set

    def call_method(self, obj, name, args, kwargs, st):
        o = self.unbox_known(obj, st)
        if isinstance(o, VSet):
            so = st.heap[o.addr]
            if name in ("add", "discard", "remove"):
                so.items.append((name, ("one", args[0])))
                return [(st, VNone())]
            raise Undecided(f"set.{name}")
        return super().call_method(obj, name, args, kwargs, st)

    def getattr(self, v, name, st):
        if isinstance(v, (VSet, VSegList, VAbsSeq)):
            return [(st, E.VBound(v, name))]
        return super().getattr(v, name, st)

    def ev_Set(self, e, st):
        out = []
        for s, vals in self.ev_seq(e.elts, st):
            if isinstance(vals, VExc):
                out.append((s, vals))
                continue
            a = s.alloc(SetObj([("add", ("one", v)) for v in vals]))
            out.append((s, VSet(a)))
        return out
        self.unroll_limit = 6

    # -- truthiness / len of sequences ----------------------------------------------------------------
    def truth(self, v, st):
        if isinstance(v, VSegList):
            conds = []
            for s in v.segs:
                conds.append(z3.BoolVal(True) if s[0] == "one" else s[2] > s[1])
            return z3.Or(*conds) if conds else z3.BoolVal(False)
        if isinstance(v, VRef):
            if self.valid_quick(st, self.lat.isinstance_z(v.z, ["timedelta"])):
                return E.td_us(v.z) != 0
            if self.valid_quick(st, self.lat.isinstance_z(v.z, ["date"])):
                return z3.BoolVal(True)
        return super().truth(v, st)

    def valid_quick(self, st, f):
        try:
            return self.valid(st, f, full_timeout_ms=300)
        except Exception:
            return False

    # -- generators -----------------------------------------------------------------------------------
    def ev_Yield(self, e, st):
        out = []
        for s, v in (self.ev(e.value, st) if e.value is not None else [(st, VNone())]):
            if isinstance(v, VExc):
                out.append((s, v))
                continue
            s.ghost["yields"] = s.ghost.get("yields", []) + [("one", v)]
            out.append((s, VNone()))
        return out

    def call_function(self, f, args, kwargs, st):
        node = f.node
        if isinstance(node, ast.FunctionDef) and any(isinstance(n, (ast.Yield, ast.YieldFrom)) for n in ast.walk(node)):
            saved = st.ghost.get("yields")
            st.ghost["yields"] = []
            out = []
            for s, v in super().call_function(f, args, kwargs, st):
                ys = s.ghost.get("yields", [])
                s.ghost["yields"] = saved
                out.append((s, v if isinstance(v, VExc) else VSegList(list(ys))))
            return out
        return super().call_function(f, args, kwargs, st)

    # -- iteration ------------------------------------------------------------------------------------
    def segments_of(self, it, st):
        it = self.unbox_known(it, st)
        if isinstance(it, VTuple):
            return [("one", x) for x in it.items]
        if isinstance(it, VList):
            return [x.seg if isinstance(x, SegEntry) else ("one", x) for x in st.heap[it.addr].items]
        if isinstance(it, VAbsSeq):
            return [("flat", it)]
        if isinstance(it, VSegList):
            return list(it.segs)
        if isinstance(it, VRef) and self.valid_quick(st, self.lat.isinstance_z(it.z, ["list"])):
            j = E.fresh("j", E.I)
            st.assume(list_len(it.z) >= 0)
            return [("range", z3.IntVal(0), list_len(it.z), j, VRef(list_elem(it.z, j)))]
        if isinstance(it, VRange):
            lo, hi = z3.simplify(it.lo), z3.simplify(it.hi)
            if z3.is_int_value(lo) and z3.is_int_value(hi) and hi.as_long() - lo.as_long() <= self.unroll_limit:
                return [("one", VInt(z3.IntVal(k))) for k in range(lo.as_long(), hi.as_long())]
            i = E.fresh("i", E.I)
            return [("range", it.lo, it.hi, i, VInt(i))]
        return None

    def iterate(self, segs, st, body):
        """body(state, item) -> list[(state, signal, produced_segments)]; returns list[(state, signal, segments)].

        signal None = continue normally; ('raise', exc) / ('ret', v) / ('break',) end the iteration."""
        live = [(st, [])]
        done = []
        for seg in segs:
            nxt = []
            for s, acc in live:
                if seg[0] == "one":
                    for s2, sig, prod in body(s, seg[1]):
                        if sig is None or sig == ("continue",):
                            nxt.append((s2, acc + prod))
                        else:
                            done.append((s2, sig, acc + prod))
                    continue
                if seg[0] == "flat" and seg[1].elem is not None:
                    j = E.fresh("j", E.I)
                    seg = ("range", z3.IntVal(0), seq_len(seg[1].z), j, seg[1].elem(j))
                if seg[0] in ("flat", "cond"):
                    raise Undecided(f"iteration over a {seg[0]} segment (elements of an abstract sequence) needs a contract")
                _, lo, hi, i, item = seg
                if isinstance(item, list):
                    raise Undecided("iteration over a nested range body")
                # uniform-body rule: the body is executed once for a fresh index lo <= i < hi
                def snap(state):
                    return {a: (dict(getattr(o, "fields", {})) if hasattr(o, "fields") else None,
                                list(o.items) if isinstance(o, ListObj) else None, getattr(o, "arr", None))
                            for a, o in state.heap.items()}
                before = snap(s)
                pre = s.fork()
                n_pc, n_qpc = len(s.pc), len(s.qpc)
                guard = z3.And(lo <= i, i < hi)
                s.assume(lo <= i, i < hi)
                results = body(s, item)
                normal = []
                for s2, sig, prod in results:
                    if sig is None or sig == ("continue",):
                        normal.append((s2, prod))
                    elif sig[0] == "raise":
                        done.append((s2, sig, acc))
                    else:
                        raise Undecided("return/break inside a loop with a symbolic range")
                if not normal:
                    continue
                cases = []
                for s2, prod in normal:
                    after = snap(s2)
                    grown = None
                    for a, sn in before.items():
                        now = after.get(a)
                        if now == sn:
                            continue
                        # the only permitted heap effect: ONE list (an accumulator) grew at its end
                        if sn[1] is not None and now is not None and now[1] is not None and now[1][:len(sn[1])] == sn[1] \
                                and now[0] == sn[0] and grown is None:
                            grown = (a, now[1][len(sn[1]):])
                        else:
                            raise Undecided("loop body over a symbolic range writes to the heap (needs an invariant)")
                    extra = []
                    if grown is not None:
                        for x in grown[1]:
                            if isinstance(s2.heap[grown[0]], SetObj):
                                extra.append(("setop", x[0], x[1]))
                            else:
                                extra.append(x.seg if isinstance(x, SegEntry) else ("one", x))
                    cases.append((s2, list(prod) + extra, grown[0] if grown else None))
                targets = {c[2] for c in cases if c[2] is not None}
                if len(targets) > 1:
                    raise Undecided("different accumulators on different paths")
                target = targets.pop() if targets else None
                if len(cases) == 1:
                    s2, prods, _ = cases[0]
                    lifted = [("range", lo, hi, i, prods[0][1] if len(prods) == 1 and prods[0][0] == "one" else prods)] if prods else []
                    s2.pc = s2.pc[:n_pc] + [z3.Implies(guard, f) for f in s2.pc[n_pc:] if not _mentions_only_bounds(f, i, lo, hi)]
                    s2.qpc = s2.qpc[:n_qpc] + [z3.Implies(guard, f) for f in s2.qpc[n_qpc:]]
                    post = s2
                else:
                    # branching body: the iteration's contribution is a conditional sequence; the state after the loop is
                    # the state before it plus the guarded case facts (objects allocated inside a branch do not survive)
                    conds = []
                    for s2, prods, _ in cases:
                        for sg in prods:
                            if not _seg_heap_free(sg):
                                raise Undecided("a branching loop body produces heap objects")
                        delta = [f for f in s2.pc[n_pc:] if not _mentions_only_bounds(f, i, lo, hi)] + s2.qpc[n_qpc:]
                        conds.append((z3.And(*delta) if delta else z3.BoolVal(True), prods))
                    lifted = [("range", lo, hi, i, [("cond", conds)])]
                    post = pre
                    post.assume(z3.Implies(guard, z3.Or(*[c for c, _ in conds])))
                if target is not None:
                    lst = post.heap[target]
                    if isinstance(lst, SetObj):
                        lst.items = list(before[target][1]) + [("loop", x) for x in lifted]
                    else:
                        lst.items = list(before[target][1]) + [SegEntry(x) for x in lifted]
                    nxt.append((post, acc))
                else:
                    nxt.append((post, acc + lifted))
            live = nxt
        return [(s, None, acc) for s, acc in live] + done

    def st_For(self, stmt, st):
        out = []
        for s, it in self.ev(stmt.iter, st):
            if isinstance(it, VExc):
                out.append((s, ("raise", it)))
                continue
            segs = self.segments_of(it, s)
            if segs is None:
                return super().st_For(stmt, st)
            if all(x[0] == "one" for x in segs):
                # concrete length: the generic unrolling of the base engine (supports break/else/state updates)
                tmp = VTuple([x[1] for x in segs])
                name = f"__iter{stmt.lineno}"
                s.env = dict(s.env)
                s.env[name] = tmp
                fake = ast.For(target=stmt.target, iter=ast.Name(id=name, ctx=ast.Load()), body=stmt.body, orelse=stmt.orelse,
                               lineno=stmt.lineno)
                out += super().st_For(fake, s)
                continue

            def body(s1, item):
                res = []
                y0 = len(s1.ghost.get("yields", []))
                for s2, sig in self.assign(stmt.target, item, s1):
                    if sig is not None:
                        res.append((s2, sig, []))
                        continue
                    for s3, sig2 in self.exec_block(stmt.body, s2):
                        ys = s3.ghost.get("yields", [])
                        prod = ys[y0:]
                        s3.ghost["yields"] = ys[:y0]
                        res.append((s3, sig2, prod))
                return res
            for s2, sig, prod in self.iterate(segs, s, body):
                if "yields" in s2.ghost or prod:
                    s2.ghost["yields"] = s2.ghost.get("yields", []) + prod
                out.append((s2, None if sig in (None, ("break",)) else sig))
        return out

    def ev_ListComp(self, e, st):
        return [(s, v if isinstance(v, VExc) else VSegList(v)) for s, v in self.comp(e.elt, e.generators, st)]

    def ev_GeneratorExp(self, e, st):
        return self.ev_ListComp(e, st)

    def comp(self, elt, gens, st):
        """-> list[(state, segments | VExc)]"""
        if not gens:
            return [(s, v if isinstance(v, VExc) else [("one", v)]) for s, v in self.ev(elt, st)]
        g = gens[0]
        out = []
        for s, it in self.ev(g.iter, st):
            if isinstance(it, VExc):
                out.append((s, it))
                continue
            segs = self.segments_of(it, s)
            if segs is None:
                raise Undecided(f"comprehension over {type(it).__name__}")

            def body(s1, item):
                res = []
                for s2, sig in self.assign(g.target, item, s1):
                    if sig is not None:
                        res.append((s2, sig, []))
                        continue
                    conds = [(s2, True)]
                    for c in g.ifs:
                        nxt = []
                        for s3, keep in conds:
                            if not keep:
                                nxt.append((s3, False))
                                continue
                            for s4, cv in self.ev(c, s3):
                                if isinstance(cv, VExc):
                                    res.append((s4, ("raise", cv), []))
                                    continue
                                for s5, side in self.split(s4, self.truth(cv, s4)):
                                    nxt.append((s5, side))
                        conds = nxt
                    for s3, keep in conds:
                        if not keep:
                            res.append((s3, None, []))
                            continue
                        for s4, v in self.comp(elt, gens[1:], s3):
                            if isinstance(v, VExc):
                                res.append((s4, ("raise", v), []))
                            else:
                                res.append((s4, None, v))
                return res
            saved_env = s.env
            for s2, sig, prod in self.iterate(segs, s, body):
                s2.env = saved_env            # comprehension variables do not leak
                out.append((s2, sig[1] if sig else prod))
        return out

    # -- list operations on sequences ------------------------------------------------------------------
    def st_AugAssign(self, stmt, st):
        if isinstance(stmt.op, ast.Add) and isinstance(stmt.target, ast.Name):
            cur = st.env.get(stmt.target.id)
            if isinstance(cur, VList):
                out = []
                for s, b in self.ev(stmt.value, st):
                    if isinstance(b, VExc):
                        out.append((s, ("raise", b)))
                        continue
                    b = self.unbox_known(b, s)
                    segs = self.segments_of(b, s)
                    if segs is None:
                        raise Undecided("list += non-sequence")
                    lst = s.heap[cur.addr]
                    for sg in segs:
                        lst.items.append(sg[1] if sg[0] == "one" else SegEntry(sg))
                    out.append((s, None))
                return out
        return super().st_AugAssign(stmt, st)

    def binop(self, op, a, b, st):
        a2, b2 = self.unbox_known(a, st), self.unbox_known(b, st)
        if isinstance(op, ast.Sub) and isinstance(a2, VSet) and isinstance(b2, VSet):
            log = list(st.heap[a2.addr].items)
            for kind, sg in st.heap[b2.addr].items:
                if kind != "add":
                    raise Undecided("set difference with a set built by removals")
                log.append(("discard", sg))
            return [(st, VSet(st.alloc(SetObj(log))))]
        if isinstance(op, ast.Add) and (isinstance(a2, VSegList) or isinstance(b2, VSegList)):
            sa, sb = self.segments_of(a2, st), self.segments_of(b2, st)
            if sa is None or sb is None:
                raise Undecided("+ between a sequence and a non-sequence")
            return [(st, VSegList(sa + sb))]
        if isinstance(op, ast.Mult):
            for x, y in ((a2, b2), (b2, a2)):
                if isinstance(x, VRef) and isinstance(y, VInt) and self.valid_quick(st, self.lat.isinstance_z(x.z, ["timedelta"])):
                    return [(st, E.VTd(E.td_us(x.z) * y.z))]
        return super().binop(op, a, b, st)


def _seg_heap_free(sg):
    if sg[0] == "one":
        return heap_free(sg[1])
    if sg[0] == "range":
        body = sg[4]
        return all(_seg_heap_free(x) for x in body) if isinstance(body, list) else heap_free(body)
    if sg[0] == "cond":
        return all(_seg_heap_free(x) for _, seq in sg[1] for x in seq)
    if sg[0] == "setop":
        return _seg_heap_free(sg[2])
    return True


def _mentions_only_bounds(f, i, lo, hi):
    return z3.eq(f, lo <= i) or z3.eq(f, i < hi)


def segs_equal(eng, sa, sb, st, elem_eq):
    """Formula: two segment lists denote the same sequence, segment by segment (sound, not complete).
    elem_eq(x, y) -> z3 Bool compares two element values; abstract (flat) sequences are compared as terms."""
    if len(sa) != len(sb):
        return z3.BoolVal(False)
    conj = []
    for x, y in zip(sa, sb):
        if x[0] == "cond" or y[0] == "cond":
            xs = x[1] if x[0] == "cond" else [(z3.BoolVal(True), [x])]
            ys = y[1] if y[0] == "cond" else [(z3.BoolVal(True), [y])]
            for c1, s1 in xs:
                for c2, s2 in ys:
                    conj.append(z3.Implies(z3.And(c1, c2), segs_equal(eng, s1, s2, st, elem_eq)))
            continue
        if x[0] != y[0]:
            return z3.BoolVal(False)
        if x[0] == "setop":
            if x[1] != y[1]:
                return z3.BoolVal(False)
            conj.append(segs_equal(eng, [x[2]], [y[2]], st, elem_eq))
            continue
        if x[0] == "one":
            conj.append(elem_eq(x[1], y[1]))
        elif x[0] == "flat":
            conj.append(x[1].z == y[1].z)
        else:
            _, lo1, hi1, i1, v1 = x
            _, lo2, hi2, i2, v2 = y
            b1 = v1 if isinstance(v1, list) else [("one", v1)]
            b2 = v2 if isinstance(v2, list) else [("one", v2)]
            body = segs_equal(eng, b1, b2, st, elem_eq)
            body = z3.substitute(body, (i2, i1)) if not z3.eq(i1, i2) else body
            # i1 is the fresh index constant of the implementation's segment: proving the element equality for it under
            # the range guard proves it for every index (generalisation), so no quantifier is needed
            conj.append(z3.Or(z3.And(hi1 <= lo1, hi2 <= lo2),
                              z3.And(lo1 == lo2, hi1 == hi2, z3.Implies(z3.And(lo1 <= i1, i1 < hi1), body))))
    return z3.And(*conj) if conj else z3.BoolVal(True)
