"""Mechanical extraction of the functions under contract from /repo's *current* source.

Every run re-reads the files with ast.parse (no import, no cache, no pinned hash).  Extraction drops only:
docstrings, type annotations, decorators other than staticmethod/classmethod/property(.setter), `__all__`.
"""
from __future__ import annotations

import ast
from pathlib import Path

from vc.common import SRC

_CACHE: dict[str, "Module"] = {}


class Module:
    def __init__(self, name: str, path: Path):
        self.name, self.path = name, path
        self.text = path.read_text()
        self.tree = ast.parse(self.text)
        self.classes: dict[str, ast.ClassDef] = {}
        self.functions: dict[str, ast.FunctionDef] = {}
        self.assigns: dict[str, ast.expr] = {}
        for n in self.tree.body:
            if isinstance(n, ast.ClassDef):
                self.classes[n.name] = n
            elif isinstance(n, ast.FunctionDef):
                self.functions[n.name] = n
            elif isinstance(n, ast.Assign) and len(n.targets) == 1 and isinstance(n.targets[0], ast.Name):
                self.assigns[n.targets[0].id] = n.value

    def bases(self, cls: str) -> list[str]:
        out = []
        for b in self.classes[cls].bases:
            if isinstance(b, ast.Name):
                out.append(b.id)
            elif isinstance(b, ast.Attribute):
                out.append(b.attr)
        return out

    def class_members(self, cls: str) -> dict[str, ast.AST]:
        out: dict[str, ast.AST] = {}
        for n in self.classes[cls].body:
            if isinstance(n, ast.FunctionDef):
                # property setters share the name; key them as name.setter
                kind = deco_kind(n)
                key = n.name if kind not in ("setter", "deleter") else f"{n.name}.{kind}"
                out[key] = n
            elif isinstance(n, ast.Assign) and len(n.targets) == 1 and isinstance(n.targets[0], ast.Name):
                out[n.targets[0].id] = n.value
        return out

    def lookup(self, qual: str) -> ast.AST | None:
        """qual: 'f', 'Class.method', 'Class.prop.setter', 'outer.inner' (nested def)."""
        parts = qual.split(".")
        if parts[0] in self.classes:
            members = self.class_members(parts[0])
            key = ".".join(parts[1:])
            if key in members:
                return members[key]
            if len(parts) >= 2 and parts[1] in members:
                node = members[parts[1]]
                for p in parts[2:]:
                    node = nested(node, p)
                    if node is None:
                        return None
                return node
            return None
        if parts[0] in self.functions:
            node: ast.AST | None = self.functions[parts[0]]
            for p in parts[1:]:
                node = nested(node, p)
                if node is None:
                    return None
            return node
        return None


def nested(fn: ast.AST, name: str):
    for n in ast.walk(fn):
        if isinstance(n, ast.FunctionDef) and n.name == name and n is not fn:
            return n
    return None


def deco_kind(fn: ast.FunctionDef) -> str:
    for d in fn.decorator_list:
        if isinstance(d, ast.Name) and d.id in ("staticmethod", "classmethod", "property"):
            return d.id
        if isinstance(d, ast.Attribute) and d.attr in ("setter", "deleter", "getter"):
            return d.attr
    return ""


def module(name: str) -> Module:
    """name like 'caselessdict', 'cal', 'timezone/tzp'."""
    path = SRC / (name + ".py")
    key = str(path)
    st = path.stat()
    stamp = f"{key}:{st.st_mtime_ns}:{st.st_size}"
    m = _CACHE.get(stamp)
    if m is None:
        m = Module(name, path)
        _CACHE[stamp] = m
    return m


def find(target: str):
    """target 'cal:Event._get_start_end_duration' -> (Module, node or None)."""
    mod, qual = target.split(":")
    m = module(mod)
    return m, m.lookup(qual)


def lines_of(node: ast.AST | None) -> str:
    if node is None:
        return ""
    return f"{getattr(node, 'lineno', '?')}-{getattr(node, 'end_lineno', '?')}"


def strip_docstring(body: list[ast.stmt]) -> list[ast.stmt]:
    if body and isinstance(body[0], ast.Expr) and isinstance(body[0].value, ast.Constant) and isinstance(body[0].value.value, str):
        return body[1:]
    return body
