"""Mechanical extraction of the functions under contract from /repo's *current* source.

Every run re-reads the files with ast.parse (no import, no cache, no pinned hash).  Extraction drops only:
docstrings, type annotations, decorators other than staticmethod/classmethod/property(.setter), `__all__`.
"""
from __future__ import annotations

import ast
from pathlib import Path

from vc.common import SRC

_CACHE: dict[str, "Module"] = {}


class Module:
    def __init__(self, name: str, path: Path):
        self.name, self.path = name, path
        self.text = path.read_text()
        self.tree = ast.parse(self.text)
        self.classes: dict[str, ast.ClassDef] = {}
        self.functions: dict[str, ast.FunctionDef] = {}
        self.assigns: dict[str, ast.expr] = {}
        for n in self.tree.body:
            if isinstance(n, ast.ClassDef):
                self.classes[n.name] = n
            elif isinstance(n, ast.FunctionDef):
                self.functions[n.name] = n
            elif isinstance(n, ast.Assign) and len(n.targets) == 1 and isinstance(n.targets[0], ast.Name):
                self.assigns[n.targets[0].id] = n.value

    def bases(self, cls: str) -> list[str]:
        out = []
        for b in self.classes[cls].bases:
            if isinstance(b, ast.Name):
                out.append(b.id)
            elif isinstance(b, ast.Attribute):
                out.append(b.attr)
        return out

    def class_members(self, cls: str) -> dict[str, ast.AST]:
        out: dict[str, ast.AST] = {}
        for n in self.classes[cls].body:
            if isinstance(n, ast.FunctionDef):
                # property setters share the name; key them as name.setter
                kind = deco_kind(n)
                key = n.name if kind not in ("setter", "deleter") else f"{n.name}.{kind}"
                out[key] = n
            elif isinstance(n, ast.Assign) and len(n.targets) == 1 and isinstance(n.targets[0], ast.Name):
                out[n.targets[0].id] = n.value
        return out

    def lookup(self, qual: str) -> ast.AST | None:
        """qual: 'f', 'Class.method', 'Class.prop.setter', 'outer.inner' (nested def)."""
        parts = qual.split(".")
        if parts[0] in self.classes:
            members = self.class_members(parts[0])
            key = ".".join(parts[1:])
            if key in members:
                return members[key]
            if len(parts) >= 2 and parts[1] in members:
                node = members[parts[1]]
                for p in parts[2:]:
                    node = nested(node, p)
                    if node is None:
                        return None
                return node
            return None
        if parts[0] in self.functions:
            node: ast.AST | None = self.functions[parts[0]]
            for p in parts[1:]:
                node = nested(node, p)
                if node is None:
                    return None
            return node
        return None


def nested(fn: ast.AST, name: str):
    for n in ast.walk(fn):
        if isinstance(n, ast.FunctionDef) and n.name == name and n is not fn:
            return n
    return None


def deco_kind(fn: ast.FunctionDef) -> str:
    for d in fn.decorator_list:
        if isinstance(d, ast.Name) and d.id in ("staticmethod", "classmethod", "property"):
            return d.id
        if isinstance(d, ast.Attribute) and d.attr in ("setter", "deleter", "getter"):
            return d.attr
    return ""


def module(name: str) -> Module:
    """name like 'caselessdict', 'cal', 'timezone/tzp'."""
    path = SRC / (name + ".py")
    key = str(path)
    st = path.stat()
    stamp = f"{key}:{st.st_mtime_ns}:{st.st_size}"
    m = _CACHE.get(stamp)
    if m is None:
        m = Module(name, path)
        _CACHE[stamp] = m
    return m


def find(target: str):
    """target 'cal:Event._get_start_end_duration' -> (Module, node or None)."""
    mod, qual = target.split(":")
    m = module(mod)
    return m, m.lookup(qual)


def lines_of(node: ast.AST | None) -> str:
    if node is None:
        return ""
    return f"{getattr(node, 'lineno', '?')}-{getattr(node, 'end_lineno', '?')}"


def strip_docstring(body: list[ast.stmt]) -> list[ast.stmt]:
    if body and isinstance(body[0], ast.Expr) and isinstance(body[0].value, ast.Constant) and isinstance(body[0].value.value, str):
        return body[1:]
    return body


class ClsRef:
    """a name that is not a constant of the class body (a value class, a function): kept by name"""
    def __init__(self, name):
        self.id = name

    def __repr__(self):
        return f"<{self.id}>"

    def __eq__(self, o):
        return isinstance(o, ClsRef) and o.id == self.id

    def __hash__(self):
        return hash(("ClsRef", self.id))


_CONST_NODES = (ast.Constant, ast.Tuple, ast.List, ast.Set, ast.Dict, ast.Name, ast.Load, ast.Store, ast.Call, ast.GeneratorExp, ast.ListComp,
                ast.DictComp, ast.SetComp, ast.comprehension, ast.Subscript, ast.Starred, ast.BinOp, ast.Add, ast.keyword, ast.Compare,
                ast.In, ast.NotIn, ast.Eq, ast.NotEq, ast.IfExp, ast.BoolOp, ast.And, ast.Or, ast.UnaryOp, ast.Not, ast.USub, ast.Slice)


def class_constants(module: "Module", cls: str) -> dict:
    """The values of the class-level constant tables of a class, computed from the REAL class body in statement order.
    Only expressions built from literals, tuples / lists / dicts, comprehensions, + and the constructors tuple / list / dict /
    frozenset / set / sorted / enumerate / zip / len / CaselessDict (a dict keyed by the upper-cased name) are evaluated; a name that
    is not an earlier constant of the body stands for itself (ClsRef).  Anything else is left out (the caller reports undecided)."""
    def caseless(*a, **k):
        d = dict(*a, **k)
        return {(key.upper() if isinstance(key, str) else key): v for key, v in d.items()}
    allowed = {"tuple": tuple, "list": list, "dict": dict, "frozenset": frozenset, "set": set, "sorted": sorted, "enumerate": enumerate,
               "zip": zip, "len": len, "CaselessDict": caseless, "range": range, "str": str}
    env: dict = {}
    for n in module.classes[cls].body:
        if not (isinstance(n, ast.Assign) and len(n.targets) == 1 and isinstance(n.targets[0], ast.Name)):
            continue
        if not all(isinstance(x, _CONST_NODES) for x in ast.walk(n.value)):
            continue
        bound = {t.id for c in ast.walk(n.value) if isinstance(c, ast.comprehension) for t in ast.walk(c.target) if isinstance(t, ast.Name)}
        scope = dict(allowed)
        scope.update(env)
        for x in ast.walk(n.value):
            if isinstance(x, ast.Name) and x.id not in scope and x.id not in bound:
                scope[x.id] = ClsRef(x.id)
        if any(isinstance(x, ast.Call) and not (isinstance(x.func, ast.Name) and x.func.id in allowed) for x in ast.walk(n.value)):
            continue
        try:
            env[n.targets[0].id] = eval(compile(ast.Expression(n.value), "<class constant>", "eval"), {"__builtins__": {}}, scope)  # noqa: S307
        except Exception:  # noqa
            continue
    return env
