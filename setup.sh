#!/bin/sh
# Build the overlay interpreter used by every check: python3.12 venv with z3-solver / cvc5 / jsonschema /
# crosshair / deal / icontract from the offline wheelhouse, plus a .pth that exposes /venv's site-packages
# (icalendar editable -> /repo/src, dateutil, pytz, tzdata, hypothesis).  Offline; ~20 s; idempotent.
set -e
cd "$(dirname "$0")"
V=.venv312
if [ -x "$V/bin/python" ] && "$V/bin/python" -c "import z3, cvc5, jsonschema, icalendar" 2>/dev/null; then
  echo "setup: overlay venv ok"; exit 0
fi
rm -rf "$V"
/venv/bin/python -m venv "$V"
PIP_NO_INDEX=1 "$V/bin/python" -m pip install -q --no-index --find-links /opt/veriftools/wheels \
    z3-solver cvc5 jsonschema deal icontract crosshair-tool >/dev/null
SP=$("$V/bin/python" -c "import sysconfig; print(sysconfig.get_paths()['purelib'])")
echo "import site; site.addsitedir('/venv/lib/python3.12/site-packages')" > "$SP/zz_repo_venv.pth"
"$V/bin/python" -c "import z3, cvc5, jsonschema, icalendar; print('setup: built overlay venv; z3', z3.get_version_string(), 'icalendar from', icalendar.__file__)"
