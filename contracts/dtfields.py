"""ASSUMED contracts of datetime.date / datetime / time constructors and field access, at the level of calendar fields
(used by the codec obligations of C03; cross-checked against CPython on every run).

  date(y, m, d)            ValueError unless 1 <= y <= 9999, 1 <= m <= 12, 1 <= d <= days_in_month(y, m); else an object with
                           those fields (class date)
  datetime(y, m, d, H, M, S)  additionally 0 <= H <= 23, 0 <= M, S <= 59 (class datetime, naive)
  time(H, M, S)            0 <= H <= 23, 0 <= M, S <= 59
  x.year ... x.second      the fields
Two naive values of the same class with equal fields are equal (==).
"""
from __future__ import annotations

import z3

from vc.pyvc import engine as E

F = {n: z3.Function("f_" + n, E.Ref, E.I) for n in ("year", "month", "day", "hour", "minute", "second")}
mk_date = z3.Function("mk_date", E.I, E.I, E.I, E.Ref)
mk_datetime = z3.Function("mk_datetime", E.I, E.I, E.I, E.I, E.I, E.I, E.Ref)
mk_time = z3.Function("mk_time", E.I, E.I, E.I, E.Ref)
is_utc = z3.Function("is_utc", E.Ref, E.B)
aware = z3.Function("aware", E.Ref, E.B)
with_utc = z3.Function("localize_utc", E.Ref, E.Ref)
with_tz = z3.Function("localize", E.Ref, E.Ref, E.Ref)


def leap(y):
    return z3.And(y % 4 == 0, z3.Or(y % 100 != 0, y % 400 == 0))


def dim(y, m):
    return z3.If(m == 2, z3.If(leap(y), 29, 28), z3.If(z3.Or(m == 4, m == 6, m == 9, m == 11), 30, 31))


def valid_date(y, m, d):
    return z3.And(y >= 1, y <= 9999, m >= 1, m <= 12, d >= 1, d <= dim(y, m))


def valid_time(h, mi, s):
    return z3.And(h >= 0, h <= 23, mi >= 0, mi <= 59, s >= 0, s <= 59)


def ints(eng, st, args):
    out = []
    for a in args:
        a = eng.unbox_known(a, st)
        if not isinstance(a, E.VInt):
            raise E.Undecided("date/time constructor with a non-int field")
        out.append(a.z)
    return out


def new_date(eng, st, args, kw):
    y, m, d = ints(eng, st, args)
    out = []
    for s, ok in eng.split(st, valid_date(y, m, d)):
        if ok:
            r = mk_date(y, m, d)
            s.assume(E.cls_of(r) == eng.lat.id("date"), F["year"](r) == y, F["month"](r) == m, F["day"](r) == d, E.truthy(r),
                     z3.Not(aware(r)), r != E.NONE)
            out.append((s, E.VRef(r, "date")))
        else:
            out.append((s, E.VExc("ValueError", "date()")))
    return out


def new_datetime(eng, st, args, kw):
    vals = ints(eng, st, args)
    while len(vals) < 6:
        vals.append(z3.IntVal(0))
    y, m, d, h, mi, sec = vals[:6]
    out = []
    for s, ok in eng.split(st, z3.And(valid_date(y, m, d), valid_time(h, mi, sec))):
        if ok:
            r = mk_datetime(y, m, d, h, mi, sec)
            s.assume(E.cls_of(r) == eng.lat.id("datetime"), E.truthy(r), z3.Not(aware(r)), r != E.NONE,
                     *[F[n](r) == v for n, v in zip(("year", "month", "day", "hour", "minute", "second"), (y, m, d, h, mi, sec))])
            out.append((s, E.VRef(r, "datetime")))
        else:
            out.append((s, E.VExc("ValueError", "datetime()")))
    return out


def new_time(eng, st, args, kw):
    h, mi, sec = ints(eng, st, args)
    out = []
    for s, ok in eng.split(st, valid_time(h, mi, sec)):
        if ok:
            r = mk_time(h, mi, sec)
            s.assume(E.cls_of(r) == eng.lat.id("time"), E.truthy(r), F["hour"](r) == h, F["minute"](r) == mi, F["second"](r) == sec,
                     z3.Not(aware(r)), r != E.NONE)
            out.append((s, E.VRef(r, "time")))
        else:
            out.append((s, E.VExc("ValueError", "time()")))
    return out


def field_attr(name):
    def hook(eng, st, v):
        v = eng.unbox_known(v, st)
        if isinstance(v, E.VRef):
            return [(st, E.VInt(F[name](v.z)))]
        return None
    return hook


def register(eng):
    eng.contracts["new:date"] = new_date
    eng.contracts["new:datetime"] = new_datetime
    eng.contracts["new:time"] = new_time
    for n in F:
        eng.contracts["attr:" + n] = field_attr(n)


def date_invariant(eng, r, cls="date"):
    """a value of class date / datetime / time as Python guarantees it"""
    L = eng.lat
    facts = [E.truthy(r), r != E.NONE]
    if cls in ("date", "datetime"):
        facts += [valid_date(F["year"](r), F["month"](r), F["day"](r))]
    if cls in ("datetime", "time"):
        facts += [valid_time(F["hour"](r), F["minute"](r), F["second"](r))]
    facts.append(E.cls_of(r) == L.id(cls))
    return facts


def crosscheck(seed=0):
    """the validity predicate and field access against CPython, on boundaries and seeded values"""
    import random
    import time as _t
    from datetime import date, datetime, time
    t0 = _t.time()
    rnd = random.Random(seed)
    bad = []
    n = 0

    def py_valid(y, m, d):
        try:
            date(y, m, d)
            return True
        except ValueError:
            return False

    def model_valid(y, m, d):
        s = z3.Solver()
        s.add(z3.Not(valid_date(z3.IntVal(y), z3.IntVal(m), z3.IntVal(d))))
        return s.check() == z3.unsat
    cases = [(y, m, d) for y in (0, 1, 4, 100, 400, 1900, 2000, 2023, 2024, 9999, 10000) for m in (0, 1, 2, 4, 12, 13) for d in (0, 1, 28, 29, 30, 31, 32)]
    for _ in range(300):
        cases.append((rnd.randint(-5, 10005), rnd.randint(-1, 14), rnd.randint(-1, 33)))
    for y, m, d in cases:
        n += 1
        if py_valid(y, m, d) != z3.is_true(z3.simplify(valid_date(z3.IntVal(y), z3.IntVal(m), z3.IntVal(d)))):
            bad.append((y, m, d))
    for h, mi, s in [(0, 0, 0), (23, 59, 59), (24, 0, 0), (0, 60, 0), (0, 0, 60), (-1, 0, 0)]:
        n += 1
        try:
            time(h, mi, s)
            ok = True
        except ValueError:
            ok = False
        if ok != z3.is_true(z3.simplify(valid_time(z3.IntVal(h), z3.IntVal(mi), z3.IntVal(s)))):
            bad.append((h, mi, s))
    return {"name": "date/time validity predicate vs CPython", "cases": n, "ok": not bad, "failures": bad[:5], "seconds": round(_t.time() - t0, 2)}
