"""ASSUMED contracts for datetime.date / datetime / timedelta arithmetic (C code, trusted; cross-checked natively).

date-like values are opaque references with class tag date or datetime and a flag aware(r) (tzinfo with utcoffset).
  dt_add(r, us)   r + timedelta(microseconds=us): same class, same awareness (result assumed inside year 1..9999 --
                  stated precondition, OverflowError otherwise)
  dt_diff(a, b)   (a - b) in microseconds; defined when both are dates, or both datetimes of equal awareness;
                  TypeError otherwise (CPython)
  axioms (instantiated at the terms that occur):
     datetime:  dt_diff(dt_add(a, d), a) = d          (wall-clock arithmetic on one tzinfo object)
     date:      dt_add(a, d) = dt_add(a, floor(d / day) * day)   and  dt_diff(dt_add(a, d), a) = floor(d/day)*day
     dt_add(a, 0) = a ; dt_diff(a, a) = 0
Comparison of aware datetimes compares instants: inst(r) is an integer; naive vs aware ordering raises TypeError.
"""
from __future__ import annotations

import ast

import z3

from vc.pyvc import engine as E

DAY = 86400 * 10 ** 6
dt_add = z3.Function("dt_add", E.Ref, E.I, E.Ref)
dt_diff = z3.Function("dt_diff", E.Ref, E.Ref, E.I)
aware = z3.Function("aware", E.Ref, E.B)
inst = z3.Function("inst", E.Ref, E.I)            # instant (UTC microseconds) of an aware datetime / wall value of a naive one


def is_date_only(eng, r):
    L = eng.lat
    return z3.And(L.isinstance_z(r, ["date"]), z3.Not(L.isinstance_z(r, ["datetime"])))


def td_of(eng, st, v):
    """microseconds of a timedelta value (VTd or a Ref known/assumed to be a timedelta), else None"""
    v = eng.unbox_known(v, st)
    if isinstance(v, E.VTd):
        return v.us
    if isinstance(v, E.VRef) and eng.valid(st, eng.lat.isinstance_z(v.z, ["timedelta"])):
        return E.td_us(v.z)
    return None


def add_facts(eng, st, a, us, r):
    L = eng.lat
    fl = E.floordivmod(us, z3.IntVal(DAY))[0] * DAY
    st.assume(E.cls_of(r) == E.cls_of(a), aware(r) == aware(a), E.truthy(r),
              z3.Implies(L.isinstance_z(a, ["datetime"]), z3.And(dt_diff(r, a) == us, inst(r) == inst(a) + us)),
              z3.Implies(is_date_only(eng, a), z3.And(dt_diff(r, a) == fl, r == dt_add(a, fl))),
              z3.Implies(us == 0, r == a))


def op_add(eng, st, a, b):
    a, b = eng.unbox_known(a, st), eng.unbox_known(b, st)
    if isinstance(a, (E.VTd,)) and isinstance(b, E.VRef):
        a, b = b, a
    if isinstance(a, E.VRef):
        us = td_of(eng, st, b)
        if us is None:
            if not isinstance(b, E.VRef):
                return [(st, E.VExc("TypeError", "unsupported operand for +"))]
            out = []
            for s, ok in eng.split(st, eng.lat.isinstance_z(b.z, ["timedelta"])):
                if ok:
                    out += op_add(eng, s, a, b)
                else:
                    # date/datetime + (date, tuple, str, ...) is a TypeError in CPython; other classes are not modelled
                    out.append((s, E.VExc("TypeError", "unsupported operand type(s) for +")))
            return out
        out = []
        for s, ok in eng.split(st, eng.lat.isinstance_z(a.z, ["date"])):
            if not ok:
                # timedelta + timedelta through references
                for s2, ok2 in eng.split(s, eng.lat.isinstance_z(a.z, ["timedelta"])):
                    out.append((s2, E.VTd(E.td_us(a.z) + us) if ok2 else E.VExc("TypeError", "unsupported +")))
                continue
            r = dt_add(a.z, us)
            add_facts(eng, s, a.z, us, r)
            out.append((s, E.VRef(r)))
        return out
    raise E.Undecided("+ on unsupported operands")


def op_sub(eng, st, a, b):
    a, b = eng.unbox_known(a, st), eng.unbox_known(b, st)
    if isinstance(a, E.VRef) and isinstance(b, E.VRef):
        L = eng.lat
        out = []
        both_date = z3.And(L.isinstance_z(a.z, ["date"]), L.isinstance_z(b.z, ["date"]))
        for s, ok in eng.split(st, both_date):
            if not ok:
                for s2, ok2 in eng.split(s, z3.And(L.isinstance_z(a.z, ["timedelta"]), L.isinstance_z(b.z, ["timedelta"]))):
                    out.append((s2, E.VTd(E.td_us(a.z) - E.td_us(b.z)) if ok2 else E.VExc("TypeError", "unsupported -")))
                continue
            same_kind = L.isinstance_z(a.z, ["datetime"]) == L.isinstance_z(b.z, ["datetime"])
            for s2, sk in eng.split(s, same_kind):
                if not sk:
                    out.append((s2, E.VExc("TypeError", "date - datetime")))
                    continue
                mism = z3.And(L.isinstance_z(a.z, ["datetime"]), aware(a.z) != aware(b.z))
                for s3, mm in eng.split(s2, mism):
                    if mm:
                        out.append((s3, E.VExc("TypeError", "can't subtract offset-naive and offset-aware datetimes")))
                    else:
                        s3.assume(z3.Implies(a.z == b.z, dt_diff(a.z, b.z) == 0))
                        out.append((s3, E.VTd(dt_diff(a.z, b.z))))
        return out
    if isinstance(a, E.VRef):
        us = td_of(eng, st, b)
        if us is not None:
            return op_add(eng, st, a, E.VTd(-us))
    raise E.Undecided("- on unsupported operands")


def op_order(eng, st, op, a, b):
    """< <= > >= between date-like references: instants for aware datetimes; naive vs aware raises TypeError."""
    a, b = eng.unbox_known(a, st), eng.unbox_known(b, st)
    if not (isinstance(a, E.VRef) and isinstance(b, E.VRef)):
        raise E.Undecided("ordering on unsupported operands")
    L = eng.lat
    out = []
    both_dt = z3.And(L.isinstance_z(a.z, ["datetime"]), L.isinstance_z(b.z, ["datetime"]))
    for s, ok in eng.split(st, both_dt):
        if not ok:
            both_d = z3.And(is_date_only(eng, a.z), is_date_only(eng, b.z))
            for s2, ok2 in eng.split(s, both_d):
                if ok2:
                    x, y = inst(a.z), inst(b.z)
                    out.append((s2, {ast.Lt: x < y, ast.LtE: x <= y, ast.Gt: x > y, ast.GtE: x >= y}[type(op)]))
                else:
                    out.append((s2, E.VExc("TypeError", "can't compare datetime to date / non-dates")))
            continue
        for s2, mm in eng.split(s, aware(a.z) != aware(b.z)):
            if mm:
                out.append((s2, E.VExc("TypeError", "can't compare offset-naive and offset-aware datetimes")))
            else:
                x, y = inst(a.z), inst(b.z)
                out.append((s2, {ast.Lt: x < y, ast.LtE: x <= y, ast.Gt: x > y, ast.GtE: x >= y}[type(op)]))
    return out


def ref_utcoffset(eng, st, args, kw):
    """datetime.utcoffset(): None for a naive datetime, a timedelta otherwise (AttributeError on non-datetimes)."""
    r = args[0].z
    out = []
    for s, isdt in eng.split(st, eng.lat.isinstance_z(r, ["datetime"])):
        if not isdt:
            out.append((s, E.VExc("AttributeError", "utcoffset")))
            continue
        for s2, aw in eng.split(s, aware(r)):
            if aw:
                off = z3.Function("utcoffset_us", E.Ref, E.I)(r)
                out.append((s2, E.VTd(off)))
            else:
                out.append((s2, E.VNone()))
    return out


def register(contracts: dict):
    contracts["ref.utcoffset"] = ref_utcoffset
    contracts["op:Add"] = op_add
    contracts["op:Sub"] = op_sub
    contracts["op:order"] = op_order


def crosscheck(seed=0):
    """Native check of the assumed arithmetic facts on boundary and seeded random values."""
    import random
    import time
    from datetime import date, datetime, timedelta, timezone
    from zoneinfo import ZoneInfo
    t = time.time()
    rnd = random.Random(seed)
    bad = []
    n = 0
    zones = [None, timezone.utc, ZoneInfo("Europe/Berlin"), ZoneInfo("America/New_York")]
    for _ in range(4000):
        us = rnd.choice([0, 1, -1, DAY, -DAY, rnd.randrange(-400 * DAY, 400 * DAY), rnd.randrange(-3, 3) * DAY + rnd.randrange(0, DAY)])
        d = timedelta(microseconds=us)
        a = datetime(rnd.randrange(1900, 2100), rnd.randrange(1, 13), rnd.randrange(1, 29), rnd.randrange(24), rnd.randrange(60), rnd.randrange(60), tzinfo=rnd.choice(zones))
        n += 1
        r = a + d
        if type(r) is not datetime or (r.tzinfo is None) != (a.tzinfo is None) or (r - a) != d:
            bad.append(("datetime add/diff", repr(a), us))
        if us == 0 and r != a:
            bad.append(("add 0", repr(a)))
        da = a.date()
        rd = da + d
        fl = (us // DAY) * DAY
        if type(rd) is not date or (rd - da) != timedelta(microseconds=fl) or rd != da + timedelta(microseconds=fl):
            bad.append(("date add/diff", repr(da), us))
        b = datetime(2000, 1, 1, tzinfo=rnd.choice(zones))
        try:
            _ = a - b
            ok = True
        except TypeError:
            ok = False
        if ok != ((a.tzinfo is None) == (b.tzinfo is None)):
            bad.append(("naive/aware subtraction", repr(a), repr(b)))
        try:
            _ = a < b
            ok = True
        except TypeError:
            ok = False
        if ok != ((a.tzinfo is None) == (b.tzinfo is None)):
            bad.append(("naive/aware ordering", repr(a), repr(b)))
        for x, y in ((da, a), (a, da)):
            try:
                _ = x - y
                bad.append(("date-datetime subtraction did not raise", repr(x), repr(y)))
            except TypeError:
                pass
    return {"name": "date/datetime/timedelta arithmetic facts vs CPython", "cases": n, "failures": bad[:5], "ok": not bad,
            "seconds": round(time.time() - t, 2)}
