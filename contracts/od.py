"""ASSUMED contracts: collections.OrderedDict primitive operations on RAW keys (C code, trusted).

The abstract view is (contents array, insertion rank, counter).  Each primitive behaves as `dict` with
insertion order: a new key gets rank = counter; deleting keeps the ranks of the others.  These contracts are
cross-checked differentially against CPython's OrderedDict on every run (vc/fin/od_crosscheck.py).
"""
from __future__ import annotations

import z3

from vc.pyvc.engine import (MapObj, OptRef, State, VBool, VExc, VMap, VNone, VRef, VStr, V, map_present, Undecided)


def _key(eng, st, k: V):
    k = eng.unbox_known(k, st)
    if not isinstance(k, VStr):
        raise Undecided("OrderedDict primitive with a non-str key")
    return k.z


def _val(eng, st, v: V):
    return eng.box(v, st)


def od_getitem(eng, st: State, args, kw):
    m = st.heap[args[0].addr]
    k = _key(eng, st, args[1])
    out = []
    for s, has in eng.split(st, map_present(m, k)):
        mm = s.heap[args[0].addr]
        out.append((s, VRef(OptRef.val(mm.arr[k])) if has else VExc("KeyError")))
    return out


def set_in(m: MapObj, k, x):
    pres = map_present(m, k)
    m.rank = z3.If(pres, m.rank, z3.Store(m.rank, k, m.ctr))
    m.ctr = z3.If(pres, m.ctr, m.ctr + 1)
    m.arr = z3.Store(m.arr, k, OptRef.some(x))


def od_setitem(eng, st: State, args, kw):
    m = st.heap[args[0].addr]
    k = _key(eng, st, args[1])
    set_in(m, k, _val(eng, st, args[2]))
    return [(st, VNone())]


def od_delitem(eng, st: State, args, kw):
    k = _key(eng, st, args[1])
    out = []
    for s, has in eng.split(st, map_present(st.heap[args[0].addr], k)):
        if has:
            mm = s.heap[args[0].addr]
            mm.arr = z3.Store(mm.arr, k, OptRef.none)
            out.append((s, VNone()))
        else:
            out.append((s, VExc("KeyError")))
    return out


def od_contains(eng, st: State, args, kw):
    m = st.heap[args[0].addr]
    return [(st, VBool(map_present(m, _key(eng, st, args[1]))))]


def od_get(eng, st: State, args, kw):
    m = st.heap[args[0].addr]
    k = _key(eng, st, args[1])
    d = args[2] if len(args) > 2 else kw.get("default", VNone())
    dz = _val(eng, st, d)
    return [(st, VRef(z3.If(map_present(m, k), OptRef.val(m.arr[k]), dz)))]


def od_setdefault(eng, st: State, args, kw):
    k = _key(eng, st, args[1])
    d = args[2] if len(args) > 2 else kw.get("default", VNone())
    dz = _val(eng, st, d)
    out = []
    for s, has in eng.split(st, map_present(st.heap[args[0].addr], k)):
        mm = s.heap[args[0].addr]
        if has:
            out.append((s, VRef(OptRef.val(mm.arr[k]))))
        else:
            set_in(mm, k, dz)
            out.append((s, VRef(dz)))
    return out


def od_pop(eng, st: State, args, kw):
    k = _key(eng, st, args[1])
    has_default = len(args) > 2 or "default" in kw
    d = args[2] if len(args) > 2 else kw.get("default", VNone())
    out = []
    for s, has in eng.split(st, map_present(st.heap[args[0].addr], k)):
        mm = s.heap[args[0].addr]
        if has:
            r = OptRef.val(mm.arr[k])
            mm.arr = z3.Store(mm.arr, k, OptRef.none)
            out.append((s, VRef(r)))
        elif has_default:
            out.append((s, VRef(_val(eng, s, d))))
        else:
            out.append((s, VExc("KeyError")))
    return out


PRIMS = {"__getitem__": od_getitem, "__setitem__": od_setitem, "__delitem__": od_delitem,
         "__contains__": od_contains, "get": od_get, "setdefault": od_setdefault, "pop": od_pop}


def register_super(contracts: dict):
    """`super().m(...)` inside CaselessDict resolves to the OrderedDict primitive."""
    for n, f in PRIMS.items():
        contracts["super:" + n] = f
