"""Component-level vocabulary for pyvc: class constants and descriptors read mechanically from cal.py, the
contracts (specs) of the single-property / DURATION descriptors, and value-class constructors.

Descriptor discovery (every run, from the AST of the class bodies):
    NAME = create_single_property("PROP", attr, (types...), type_def, doc[, vProp])   -> closure instantiation
    NAME = create_utc_property("PROP", doc)
    NAME = property(fget, fset, fdel, doc)      with module-level functions
    @property def NAME / @NAME.setter           -> the real body is executed (callers see it through `inline`)
    NAME = OtherClass.NAME / NAME = _module_level_alias
    NAME = ( 'A', 'B', ...)                      -> class constant
"""
from __future__ import annotations

import ast

import z3

from contracts import od, caseless
from vc.pyvc import engine as E
from vc.pyvc import source


class Descriptor:
    def __init__(self, kind, owner, name, **kw):
        self.kind, self.owner, self.name = kind, owner, name
        self.__dict__.update(kw)


def literal(node):
    try:
        return ast.literal_eval(node)
    except Exception:
        return None


class Classes:
    """Reads cal.py (and the modules it needs) once per run."""

    def __init__(self, modname="cal", extra=("alarms",)):
        self.mod = source.module(modname)
        self.mods = [self.mod] + [source.module(m) for m in extra]
        self.cache: dict = {}

    def mod_of(self, cls):
        for m in self.mods:
            if cls in m.classes:
                return m
        return None

    def member(self, lat: E.Lattice, cls: str, name: str):
        key = (cls, name)
        if key in self.cache:
            return self.cache[key]
        res = None
        for c in mro(lat, cls):
            m = self.mod_of(c)
            if m is None:
                continue
            members = m.class_members(c)
            if name in members or (name + ".setter") in members:
                res = self.describe(lat, c, name, members.get(name), m)
                break
        self.cache[key] = res
        return res

    def describe(self, lat, owner, name, node, mod=None):
        mod = mod or self.mod
        if isinstance(node, ast.FunctionDef):
            kind = source.deco_kind(node)
            if kind == "property":
                members = mod.class_members(owner)
                return Descriptor("property_def", owner, name, fget=node, fset=members.get(name + ".setter"),
                                  fdel=members.get(name + ".deleter"))
            return Descriptor("method", owner, name, node=node, deco=kind)
        if isinstance(node, ast.Call) and isinstance(node.func, ast.Name):
            f = node.func.id
            if f == "create_single_property":
                args = node.args
                kw = {k.arg: k.value for k in node.keywords}
                prop = literal(args[0])
                attr = literal(args[1])
                vt = [n.id for n in args[2].elts] if isinstance(args[2], ast.Tuple) else None
                vprop = args[5].id if len(args) > 5 else (kw["vProp"].id if "vProp" in kw else "vDDDTypes")
                return Descriptor("single", owner, name, prop=prop, value_attr=attr, value_type=vt, vProp=vprop)
            if f == "create_utc_property":
                return Descriptor("utc", owner, name, prop=literal(node.args[0]))
            if f == "property":
                fs = [a.id if isinstance(a, ast.Name) else None for a in node.args[:3]]
                fs += [None] * (3 - len(fs))
                return Descriptor("property_fns", owner, name, fget=fs[0], fset=fs[1], fdel=fs[2])
        if isinstance(node, ast.Attribute) and isinstance(node.value, ast.Name) and self.mod_of(node.value.id) is not None:
            return self.member(lat, node.value.id, node.attr)
        if isinstance(node, ast.Name):
            if node.id in mod.assigns:
                return self.describe(lat, owner, name, mod.assigns[node.id], mod)
            if node.id in mod.functions:
                return Descriptor("method", owner, name, node=mod.functions[node.id], deco="")
        val = literal(node) if node is not None else None
        if isinstance(val, (tuple, list)) and all(isinstance(x, str) for x in val):
            return Descriptor("const", owner, name, value=E.VTuple([E.VStr(z3.StringVal(x)) for x in val]))
        if isinstance(val, str):
            return Descriptor("const", owner, name, value=E.VStr(z3.StringVal(val)))
        if isinstance(val, bool):
            return Descriptor("const", owner, name, value=E.VBool(z3.BoolVal(val)))
        if val is None and isinstance(node, ast.Constant):
            return Descriptor("const", owner, name, value=E.VNone())
        return None


def mro(lat, cls):
    out, todo = [], [cls]
    while todo:
        c = todo.pop(0)
        if c in out:
            continue
        out.append(c)
        todo.extend(lat.bases.get(c, []))
    return out


# ---------------------------------------------------------------------------------------------------
# value-class constructors (ASSUMED contracts on prop.py constructors; C02/C03 put the real ones under contract)

ALLOWED_DDD = ["datetime", "date", "timedelta", "time", "tuple"]


def new_value_obj(eng, st, cls, attr, value, allowed):
    """fresh object of value class `cls` whose attribute `attr` (and `dt`) is `value`; ValueError if not allowed"""
    out = []
    for s, ok in eng.split(st, eng.isinstance_z(value, allowed, st)):
        if not ok:
            out.append((s, E.VExc("ValueError", f"{cls} constructor type check")))
            continue
        r = s.new_ref(eng.lat.id(cls), cls)
        vz = eng.box(value, s)
        s.assume(eng.has_attr_z(r, attr), eng.attr_z(r, attr) == vz, eng.has_attr_z(r, "dt"), eng.attr_z(r, "dt") == vz,
                 E.truthy(r))
        out.append((s, E.VRef(r, cls)))
    return out


def new_vDDDTypes(eng, st, args, kw):
    return new_value_obj(eng, st, "vDDDTypes", "dt", args[0], ALLOWED_DDD)


def new_vDuration(eng, st, args, kw):
    return new_value_obj(eng, st, "vDuration", "td", args[0], ["timedelta"])


def new_vUTCOffset(eng, st, args, kw):
    return new_value_obj(eng, st, "vUTCOffset", "td", args[0], ["timedelta"])


# ---------------------------------------------------------------------------------------------------
# specs (contracts) of the descriptors, used by callers and compared with the real closures by props/C16.py

def spec_p_get(d: Descriptor):
    def c(eng, st, args, kw):
        selfv = args[0]
        K = E.upper_lit(st, d.prop)
        out = []
        for s, has in eng.split(st, E.map_present(st.heap[selfv.addr], K)):
            if not has:
                out.append((s, E.VNone()))
                continue
            r = E.OptRef.val(s.heap[selfv.addr].arr[K])
            for s2, isl in eng.split(s, eng.lat.isinstance_z(r, ["list"])):
                if isl:
                    out.append((s2, E.VExc("InvalidCalendar", f"Multiple {d.prop}")))
                    continue
                cands = []
                if d.value_attr is None:
                    cands.append((s2, r))
                else:
                    eng.attr_facts(r, d.value_attr, s2)
                    for s3, ha in eng.split(s2, eng.has_attr_z(r, d.value_attr)):
                        cands.append((s3, eng.attr_z(r, d.value_attr) if ha else r))
                for s3, v in cands:
                    for s4, ok in eng.split(s3, eng.lat.isinstance_z(v, d.value_type)):
                        out.append((s4, E.VRef(v) if ok else E.VExc("InvalidCalendar", f"{d.prop} type")))
        return out
    return c


def exclusive_of(eng, classes: Classes, cls: str):
    m = classes.member(eng.lat, cls, "exclusive")
    if m is None or m.kind != "const":
        return []
    return [z3.simplify(x.z).as_string() for x in m.value.items]


def spec_p_del(d: Descriptor):
    def c(eng, st, args, kw):
        return [(s, E.VNone()) for s, _ in od.od_pop(eng, st, [args[0], E.VStr(E.upper_lit(st, d.prop)), E.VNone()], {})]
    return c


def spec_p_set(d: Descriptor, classes: Classes):
    def c(eng, st, args, kw):
        selfv, value = args[0], args[1]
        out = []
        for s, isnone in eng.split(st, eng.identical(value, E.VNone(), st)):
            if isnone:
                out += spec_p_del(d)(eng, s, [selfv], {})
                continue
            for s2, ok in eng.split(s, eng.isinstance_z(value, d.value_type, s)):
                if not ok:
                    out.append((s2, E.VExc("TypeError", "setter type check")))
                    continue
                for s3, obj in eng.call_contract("new:" + d.vProp, [value], {}, s2):
                    if isinstance(obj, E.VExc):
                        out.append((s3, obj))
                        continue
                    od.od_setitem(eng, s3, [selfv, E.VStr(E.upper_lit(s3, d.prop)), obj], {})
                    cls = s3.heap[selfv.addr].cls
                    excl = exclusive_of(eng, classes, cls)
                    cur = [(s3, None)]
                    if d.prop in excl:
                        for o in excl:
                            if o == d.prop:
                                continue
                            nxt = []
                            for s4, _ in cur:
                                nxt += od.od_pop(eng, s4, [selfv, E.VStr(E.upper_lit(s4, o)), E.VNone()], {})
                            cur = nxt
                    out += [(s4, E.VNone()) for s4, _ in cur]
        return out
    return c


def spec_get_duration(eng, st, args, kw):
    selfv = args[0]
    K = E.upper_lit(st, "DURATION")
    out = []
    for s, has in eng.split(st, E.map_present(st.heap[selfv.addr], K)):
        if not has:
            out.append((s, E.VNone()))
            continue
        r = E.OptRef.val(s.heap[selfv.addr].arr[K])
        for s2, a in eng.split(s, eng.lat.isinstance_z(r, ["vDDDTypes"])):
            if a:
                eng.attr_facts(r, "dt", s2)
                s2.assume(eng.has_attr_z(r, "dt"))
                for s2b, istd in eng.split(s2, eng.lat.isinstance_z(eng.attr_z(r, "dt"), ["timedelta"])):
                    out.append((s2b, E.VRef(eng.attr_z(r, "dt")) if istd else E.VExc("InvalidCalendar", "DURATION must be a timedelta")))
                continue
            for s3, b in eng.split(s2, eng.lat.isinstance_z(r, ["vDuration"])):
                if b:
                    s3.assume(eng.has_attr_z(r, "td"))
                    out.append((s3, E.VRef(eng.attr_z(r, "td"))))
                    continue
                for s4, c in eng.split(s3, eng.lat.isinstance_z(r, ["timedelta"])):
                    out.append((s4, E.VNone() if c else E.VExc("InvalidCalendar", "DURATION must be a timedelta")))
    return out


def spec_set_duration(eng, st, args, kw):
    selfv, value = args[0], args[1]
    out = []
    for s, isnone in eng.split(st, eng.identical(value, E.VNone(), st)):
        if isnone:
            out += [(s2, E.VNone()) for s2, _ in od.od_pop(eng, s, [selfv, E.VStr(E.upper_lit(s, "DURATION")), E.VNone()], {})]
            continue
        for s2, ok in eng.split(s, eng.isinstance_z(value, ["timedelta"], s)):
            if not ok:
                out.append((s2, E.VExc("TypeError", "Use timedelta")))
                continue
            for s3, obj in new_vDuration(eng, s2, [value], {}):
                if isinstance(obj, E.VExc):
                    out.append((s3, obj))
                    continue
                od.od_setitem(eng, s3, [selfv, E.VStr(E.upper_lit(s3, "DURATION")), obj], {})
                cur = [(s3, None)]
                for o in ("DTEND", "DUE"):
                    nxt = []
                    for s4, _ in cur:
                        nxt += od.od_pop(eng, s4, [selfv, E.VStr(E.upper_lit(s4, o)), E.VNone()], {})
                    cur = nxt
                out += [(s4, E.VNone()) for s4, _ in cur]
    return out


def spec_del_duration(eng, st, args, kw):
    return [(s, E.VNone()) for s, _ in od.od_pop(eng, st, [args[0], E.VStr(E.upper_lit(st, "DURATION")), E.VNone()], {})]


MODULE_FN_SPECS = {"_get_duration": spec_get_duration, "_set_duration": spec_set_duration, "_del_duration": spec_del_duration}


# ---------------------------------------------------------------------------------------------------
# wiring into an engine

def spec_encode(eng, st, args, kw):
    """Caller-side contract of the static method Component._encode(name, value) for an already typed value and no parameters
    (the call shape of the property setters): the value itself; for TRIGGER a date-time value is tagged VALUE=DATE-TIME.
    props/C02.py proves the real body against the full contract."""
    name, value = args[1], args[2]
    if len(args) > 3 or kw:
        raise E.Undecided("_encode with parameters: use the C02 contract")
    nz = z3.simplify(eng.unbox_known(name, st).z)
    if not z3.is_string_value(nz):
        raise E.Undecided("_encode with a symbolic name")
    if nz.as_string().upper() != "TRIGGER":
        return [(st, value)]
    hook = eng.contracts.get("encode:TRIGGER")
    if hook is None:
        raise E.Undecided("_encode('TRIGGER', ...) needs the C02 contract")
    return hook(eng, st, args, kw)


def install(eng: E.Engine, classes: Classes, inline_props=True):
    """member hook + contracts so that attribute access on a Component view resolves descriptors."""
    caseless.register(eng.contracts)
    eng.contracts["Component._encode"] = spec_encode
    eng.contracts["new:vDDDTypes"] = new_vDDDTypes
    eng.contracts["new:vDuration"] = new_vDuration
    eng.contracts["new:vUTCOffset"] = new_vUTCOffset
    eng.attr_classes.setdefault("dt", set()).update({"vDDDTypes", "vDate", "vDatetime", "vDuration", "vPeriod", "vTime"})
    eng.attr_classes.setdefault("td", set()).update({"vDuration", "vUTCOffset"})
    eng.noattr_classes |= {"date", "datetime", "timedelta", "time", "tzinfo"}

    def member(engine, cls, name):
        d = classes.member(engine.lat, cls, name)
        if d is None:
            return None
        if d.kind == "const":
            return ("const", d.value)
        if d.kind in ("single", "utc", "property_fns", "property_def"):
            key = f"{d.owner}.{d.name}"
            ensure_descriptor_contracts(engine, classes, d, key)
            return ("property", key)
        if d.kind == "method":
            key = f"{cls}.{name}"
            if key not in engine.contracts and f"{d.owner}.{name}" not in engine.contracts:
                # dynamic dispatch: the object may be an instance of any subclass of its static class; a subclass of the repo that
                # overrides the method gives another implementation, and the caller must satisfy its obligation with each of them
                impls = {d.owner: d.node}
                for sub in engine.lat.subclasses(cls):
                    ds = classes.member(engine.lat, sub, name)
                    if ds is not None and ds.kind == "method" and ds.owner not in impls:
                        impls[ds.owner] = ds.node
                if len(impls) == 1:
                    engine.contracts[f"{d.owner}.{name}"] = inline_method(d.node)
                else:
                    engine.contracts[key] = dispatch_method(impls)
            return ("method", key)
        return None
    eng.contracts["member"] = member


def constructor(classes: Classes, cls: str):
    """`Cls(args...)` for a plain class of the repo: a fresh heap object initialised by the REAL __init__ body."""
    def c(eng, st, args, kw):
        d = classes.member(eng.lat, cls, "__init__")
        if d is None or d.kind != "method":
            raise E.Undecided(f"no __init__ for {cls}")
        addr = st.alloc(E.HeapObj(cls, {}))
        obj = E.VObj(addr)
        out = []
        for s, v in eng.call_function(E.VFunc(d.node, dict(eng.globals), None, "__init__"), [obj] + list(args), kw, st):
            out.append((s, v if isinstance(v, E.VExc) else obj))
        return out
    return c


def exact_arity(contract, n_positional, what):
    """an assumed contract speaks about ONE call shape: a call with other arguments is not covered by it (undecided, never accepted)"""
    def c(eng, st, args, kw):
        if len(args) != n_positional or kw:
            raise E.Undecided(f"{what} is called with {len(args) - 1} positional and {sorted(kw)} keyword arguments: outside its assumed contract")
        return contract(eng, st, args, kw)
    return c


def dispatch_method(impls):
    """non-deterministic choice among the implementations of the static class and of its overriding subclasses (over-approximation)"""
    def c(eng, st, args, kw):
        out = []
        for owner, node in sorted(impls.items()):
            s2 = st.fork()
            s2.trace.append(f"dispatch:{owner}.{node.name}")
            out += eng.call_function(E.VFunc(node, dict(eng.globals), None, node.name), list(args), dict(kw), s2)
        return out
    return c


def inline_method(node):
    def c(eng, st, args, kw):
        return eng.call_function(E.VFunc(node, dict(eng.globals), None, node.name), args, kw, st)
    return c


def ensure_descriptor_contracts(eng, classes, d: Descriptor, key: str):
    if key + ".fget" in eng.contracts:
        return
    if d.kind == "single":
        eng.contracts[key + ".fget"] = spec_p_get(d)
        eng.contracts[key + ".fset"] = spec_p_set(d, classes)
        eng.contracts[key + ".fdel"] = spec_p_del(d)
    elif d.kind == "property_fns":
        for slot, fn in (("fget", d.fget), ("fset", d.fset), ("fdel", d.fdel)):
            if fn in MODULE_FN_SPECS:
                eng.contracts[f"{key}.{slot}"] = MODULE_FN_SPECS[fn]
            elif fn and fn in classes.mod.functions:
                eng.contracts[f"{key}.{slot}"] = inline_method(classes.mod.functions[fn])
    elif d.kind == "property_def":
        for slot, node in (("fget", d.fget), ("fset", d.fset), ("fdel", d.fdel)):
            if node is not None:
                eng.contracts[f"{key}.{slot}"] = inline_method(node)
    elif d.kind == "utc":
        hook = eng.contracts.get("utc_property")
        if hook:
            eng.contracts[key + ".fget"] = hook(d, "fget")
            eng.contracts[key + ".fset"] = hook(d, "fset")
