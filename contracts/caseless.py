"""Contracts of the CaselessDict methods as seen by CALLERS (Component / Parameters code in cal.py, parser.py).

Each method is the reference dict operation at K = up(to_unicode(key)); these are exactly the contracts that
props/C17.py proves against the real method bodies on every run (C17.<method>.same_as_dict / wf_preserved), so
callers rely on proved contracts, not on the bodies.

Also here: the abstract-iteration vocabulary used by `update` (and other loops over opaque iterables):
  items_of(r)      the pair sequence `r.items()` of an opaque mapping r
  loop rule        `for k, v in <opaque pair sequence>`: the body is verified ONCE from an arbitrary well-formed view
                   with fresh (k, v); it must be exactly one reference step `view[K(k)] = v` (whole view equal) and
                   must exit normally.  By induction the loop is the fold of that step over the sequence; the fold is
                   recorded as a ghost trace (list of sequence terms, in order) that the postcondition speaks about.
"""
from __future__ import annotations

import z3

from contracts import od
from vc.pyvc import engine as E


def K_of(eng, st, key: E.V):
    key = eng.unbox_known(key, st)
    if isinstance(key, E.VStr):
        z = z3.simplify(key.z)
        if z3.is_string_value(z):
            return E.VStr(E.upper_lit(st, z.as_string()))
        raw = st.ghost.get("raw_keys") or ()
        if str(key.z) in raw:
            return E.VStr(E.up(E.tu(key.z)))
        return E.VStr(E.up(key.z))
    if isinstance(key, E.VRef):
        # key of unknown class: its text is str_of(key) when it is a str; other classes are outside the contract
        return E.VStr(E.up(E.tu(E.str_of(key.z))))
    raise E.Undecided("CaselessDict key of unsupported kind")


def method(prim):
    def c(eng, st, args, kw):
        self, key, rest = args[0], args[1], list(args[2:])
        if "default" in kw:
            rest.append(kw["default"])
        if "value" in kw:
            rest.append(kw["value"])
        if prim in ("get", "setdefault", "pop") and not rest:
            rest = [E.VNone()]          # signature defaults of the real methods (get/setdefault/pop: None)
        return od.PRIMS[prim](eng, st, [self, K_of(eng, st, key)] + rest, {})
    return c


def register(contracts: dict, cls="CaselessDict"):
    for name, prim in [("__getitem__", "__getitem__"), ("__setitem__", "__setitem__"), ("__delitem__", "__delitem__"),
                       ("__contains__", "__contains__"), ("has_key", "__contains__"), ("get", "get"),
                       ("setdefault", "setdefault"), ("pop", "pop")]:
        contracts[f"{cls}.{name}"] = method(prim)


# ---------------------------------------------------------------------------------------------------
# abstract iteration

PairSeq = z3.DeclareSort("PairSeq")
items_of = z3.Function("items_of", E.Ref, PairSeq)
as_pairs = z3.Function("as_pairs", E.Ref, PairSeq)       # an iterable of pairs used directly


class VPairSeq(E.V):
    def __init__(self, z):
        self.z = z


def ref_items(eng, st, args, kw):
    return [(st, VPairSeq(items_of(args[0].z)))]


def b_iter(eng, st, args, kw):
    return [(st, args[0])]


def loop_over_pairs(eng: E.Engine, st: E.State, stmt, it):
    """Loop rule for `for <k>, <v> in <opaque pair sequence>` whose body updates the receiver map `self`."""
    if isinstance(it, VPairSeq):
        seq = it.z
    elif isinstance(it, E.VRef):
        seq = as_pairs(it.z)
    else:
        raise E.Undecided("loop over unsupported iterable")
    selfv = st.env.get("self")
    if not isinstance(selfv, E.VMap):
        raise E.Undecided("pair loop outside a map method")
    # (1) verify the body once, from an arbitrary well-formed view
    s0 = E.State()
    m0 = E.MapObj.fresh(f"loop{stmt.lineno}")
    a0 = s0.alloc(m0)
    s0.assume(E.map_wf(m0))
    kz, vz = z3.Const(f"lk{stmt.lineno}", E.S), z3.Const(f"lv{stmt.lineno}", E.Ref)
    s0.ghost["raw_keys"] = {str(kz)}
    s0.env = dict(st.env)
    s0.env["self"] = E.VMap(a0)
    body_obls = []
    ok_shape = True
    results = []
    for s1, sig in eng.assign(stmt.target, E.VTuple([E.VStr(kz), E.VRef(vz)]), s0):
        if sig is not None:
            ok_shape = False
            continue
        results += eng.exec_block(stmt.body, s1)
    # reference step
    sr = E.State()
    mr = E.MapObj(m0.arr, m0.rank, m0.ctr)
    od.set_in(mr, E.up(E.tu(kz)), vz)
    for s2, sig in results:
        if sig is not None:
            body_obls.append((f"loop@{stmt.lineno}.body_exits_normally", s2, z3.BoolVal(False)))
            continue
        body_obls.append((f"loop@{stmt.lineno}.body_is_one_reference_step", s2, E.same_view(s2.heap[a0], mr)))
    if not ok_shape or not results:
        body_obls.append((f"loop@{stmt.lineno}.body_shape", s0, z3.BoolVal(False)))
    st.ghost["loop_obls"] = st.ghost.get("loop_obls", []) + body_obls
    # (2) after the loop: the view is the fold of the reference step over seq (ghost trace), still well-formed
    cur = st.heap[selfv.addr]
    fold = z3.Function("fold_setitem", z3.ArraySort(E.S, E.OptRef), z3.ArraySort(E.S, E.I), E.I, PairSeq, E.I)
    tag = next(E._counter)
    new = E.MapObj(z3.Const(f"arr_after{tag}", z3.ArraySort(E.S, E.OptRef)), z3.Const(f"rank_after{tag}", z3.ArraySort(E.S, E.I)),
                   z3.Int(f"ctr_after{tag}"), cur.cls, cur.fields, cur.ref)
    st.heap[selfv.addr] = new
    st.assume(E.map_wf(new))
    st.ghost["fold_trace"] = st.ghost.get("fold_trace", []) + [seq]
    return [(st, None)]
