#!/bin/sh
# tools/rebase_seed.sh <seed> <python-edit-script>: re-create a seeded patch on the current /repo HEAD.
# The edit script is run inside a scratch worktree; the demo must pass on the clean tree and fail with the patch, and the suite
# must show only the 3 pre-existing failures. On success patch.diff is replaced (the original kept as patch.orig.diff).
seed=$1; edit=$2
wt=/tmp/rebase_$seed.$$
git -C /repo worktree add -q --detach $wt HEAD || exit 9
demo=$(ls /verif/seeded/$seed/ | grep -E '^demo' | head -1)
run_demo() { ( cd $wt && PYTHONPATH=$wt/src PYTHONDONTWRITEBYTECODE=1 /venv/bin/python /verif/seeded/$seed/$demo >/dev/null 2>&1; echo $? ); }
clean=$(run_demo)
( cd $wt && python3 $edit ) || { echo "edit failed"; git -C /repo worktree remove --force $wt; exit 9; }
( cd $wt && git diff ) > /tmp/rebase_$seed.diff
patched=$(run_demo)
suite=$(cd $wt && PYTHONPATH=$wt/src PYTHONDONTWRITEBYTECODE=1 /venv/bin/python -m pytest -q -p no:cacheprovider src/icalendar 2>&1 | tail -1)
echo "$seed: demo clean rc=$clean patched rc=$patched suite: $suite"
git -C /repo worktree remove --force $wt
case "$suite" in *"3 failed, 8055 passed"*|*"3 failed, 8054 passed"*) ok=1;; *) ok=0;; esac
if [ "$clean" = "0" ] && [ "$patched" != "0" ] && [ $ok = 1 ]; then
  [ -f /verif/seeded/$seed/patch.orig.diff ] || cp /verif/seeded/$seed/patch.diff /verif/seeded/$seed/patch.orig.diff
  cp /tmp/rebase_$seed.diff /verif/seeded/$seed/patch.diff
  python3 - <<PY
import json,subprocess
p='/verif/seeded/$seed/meta.json'
m=json.load(open(p))
head=subprocess.check_output(['git','-C','/repo','rev-parse','--short','HEAD'],text=True).strip()
m['rebased']=f"patch.diff re-created on /repo {head} (the fix commits touched the same lines): same semantic change; patch.orig.diff is the sub-agent's patch. Demo passes on the clean tree (rc 0), fails with the patch (rc $patched); suite with the patch: $suite"
json.dump(m,open(p,'w'),indent=1)
PY
  echo "  stored"
else
  echo "  NOT stored"
fi
rm -f /tmp/rebase_$seed.diff
