#!/usr/bin/env python3
"""Apply every seeded change (seeded/<id>_<k>/patch.diff) in a scratch worktree outside /repo and /verif and run the check of its
property (plus any extra checks named on the command line as <seed>=<Cxx,...>).  Writes seeded/results.json."""
import json, os, re, subprocess, sys
from concurrent.futures import ThreadPoolExecutor

def sh(cmd, cwd=None, env=None, timeout=7200):
    e = dict(os.environ); e.update(env or {})
    p = subprocess.run(cmd, shell=True, cwd=cwd, env=e, capture_output=True, text=True, timeout=timeout)
    return p.returncode, p.stdout + p.stderr

def one(seed):
    prop = seed.split("_")[0]
    wt = f"/tmp/seedrun_{seed}.{os.getpid()}"
    sh(f"git -C /repo worktree add -q --detach {wt} HEAD")
    try:
        rc, o = sh(f"git apply -3 /verif/seeded/{seed}/patch.diff", cwd=wt)
        if rc != 0 or "with conflicts" in o:
            return seed, {"applies": False}
        rc, o = sh(f"/verif/check {prop}", env={"VERIF_REPO": wt, "VERIF_EVIDENCE_DIR": f"/tmp/seedrun_ev_{seed}.{os.getpid()}"})
        lines = [l for l in o.splitlines() if l.startswith("VIOLATION") or l.startswith(f"[{prop}]")]
        viol = [l for l in lines if l.startswith("VIOLATION")]
        how = "NOT REPORTED"
        if viol:
            ded = [l for l in viol if ".bnd." not in l]
            how = "deductive obligation refuted" if ded and len(ded) == len(viol) else ("deductive obligation refuted + bounded stand-in" if ded else "bounded stand-in")
        elif rc == 2:
            how = "undecided only (exit 2)"
        return seed, {"applies": True, "check": prop, "exit": rc, "how": how,
                      "violations": [re.sub(r"-[0-9a-f]{8}\.json.*", "", v.split("replay=replays/")[-1]) for v in viol][:4]}
    finally:
        sh(f"git -C /repo worktree remove --force {wt}")
        sh(f"rm -rf /tmp/seedrun_ev_{seed}.{os.getpid()}")

def main():
    seeds = sorted(d for d in os.listdir("/verif/seeded") if re.fullmatch(r"C\d\d_\d", d))
    if len(sys.argv) > 1:
        seeds = [s for s in seeds if s in sys.argv[1:] or s.split("_")[0] in sys.argv[1:]]
    out_path = "/verif/seeded/results.json"
    results = json.load(open(out_path)) if os.path.exists(out_path) else {}
    with ThreadPoolExecutor(max_workers=5) as ex:
        for seed, r in ex.map(one, seeds):
            meta = json.load(open(f"/verif/seeded/{seed}/meta.json"))
            r["summary"] = meta.get("summary", "")[:200]
            results[seed] = r
            print(seed, r.get("how"), r.get("violations", ""), flush=True)
            json.dump(results, open(out_path, "w"), indent=1)

if __name__ == "__main__":
    main()
