#!/bin/sh
# tools/try_seed.sh <seed-dir-name> <Cxx> [<Cxx> ...]: run checks against a scratch worktree with the seeded patch applied
name=$1; shift
wt=/tmp/try_$name.$$
git -C /repo worktree add -q --detach $wt HEAD || exit 9
( cd $wt && git apply -3 /verif/seeded/$name/patch.diff 2>/dev/null ) || { echo "patch does not apply"; git -C /repo worktree remove --force $wt; exit 9; }
for c in "$@"; do
  VERIF_REPO=$wt VERIF_EVIDENCE_DIR=/tmp/try_evidence.$$ /verif/check $c ${TIER:+--tier $TIER} 2>&1 | grep -E "^(VIOLATION|KNOWN|\[C)" | grep -v "UNDECIDED:" | head -8
  echo "  -> $name vs $c done"
done
git -C /repo worktree remove --force $wt
rm -rf /tmp/try_evidence.$$
