#!/usr/bin/env python3
"""Regenerate MANIFEST.json from the per-property table below (single source of truth for what is claimed)."""
import json, os, sys
HERE = os.path.dirname(os.path.abspath(__file__)); ROOT = os.path.dirname(HERE)
props = [json.loads(l) for l in open(os.path.join(ROOT, "properties.jsonl"))]

CHECKS = {
 "C17": dict(
   category="proof", design_ref="DESIGN.md section 8 C17, section 12",
   text="Every key-taking method of the real CaselessDict (__getitem__ __setitem__ __delitem__ __contains__ has_key get setdefault pop) "
        "and update() is symbolically executed from an arbitrary well-formed view and proved equal (exit kind, result, WHOLE view incl. "
        "insertion order) to the dict operation at up(to_unicode(key)); the representation invariant (only upper-case keys) is preserved on "
        "every exit, so the statement holds after every operation sequence by induction, with no bound. __eq__ is proved total, reflexive "
        "by identity, False for non-mappings, equal to dict equality of the two contents (insertion order plays no role) and to compare "
        "a plain mapping by its upper-cased content. The canonical key ordering is proved on the real body of canonsort_keys for all key "
        "lists and declared orders (list-algebra VCs: permutation, priority names in declared order then the others alphabetically, no "
        "KeyError), its three one-line callers by statement shape. The remaining operations (constructors, copy, popitem, merge "
        "operators) are a labelled bounded stand-in.",
   note="Trusted: OrderedDict primitive contracts on raw keys (cross-checked against CPython each run), str.upper idempotent "
        "(checked on all code points each run), sorted() as a stable ascending permutation, the pyvc executor and z3. Bounded only: "
        "constructors/copy/popitem/|,|=/fromkeys.",
   technique="contract-based deductive verification: AST->z3 VCs over a map view (pyvc), loop rule for update, list-algebra VCs for the canonical ordering; bounded stand-in for C-level ops"),
 "C16": dict(
   category="proof", design_ref="DESIGN.md section 8 C16",
   text="The real descriptor closures (create_single_property p_get/p_set/p_del for DTSTART, DTEND, DUE), _get/_set/_del_duration and the "
        "start/end/duration getters and setters of Event and Todo are symbolically executed over an arbitrary component view. Proved for all "
        "states: every setter/deleter preserves 'not (END and DURATION)' (so it holds after every edit history, by induction), whole-view "
        "effect of each setter from ANY state, duration == end - start, end == start + DURATION / start + 1 day / start, and that the getters "
        "raise only InvalidCalendar / IncompleteComponent on every state of the map. Edit histories and parsed states on the real classes are "
        "a labelled bounded stand-in.",
   note="Trusted: CaselessDict contracts (proved in C17), value-class constructor contracts (vDDDTypes/vDuration: fresh object with .dt/.td), "
        "date arithmetic facts (contracts/dt.py, cross-checked natively), results within year 1..9999; stored values are value-class instances "
        "(type invariant); _get_start_end_duration and is_date are inlined.",
   technique="contract-based deductive verification: AST->z3 VCs (pyvc), helper contracts proved against bodies, statement-level postconditions per getter/setter; bounded stand-in"),
 "C15": dict(
   category="proof", design_ref="DESIGN.md section 8 C15",
   text="AlarmTime.acknowledged / trigger / is_active are symbolically executed with every optional instant absent or present as an "
        "unconstrained integer instant, so all orderings incl. equalities are covered at once; proved: acknowledged is the later of the "
        "present acknowledgements, the snoozed trigger rule, is_active returns exactly the statement's disjunction and raises only "
        "LocalTimezoneMissing and only for floating (naive or date) triggers; monotonicity as a lemma over that contract; "
        "Alarms.add_component wires X-MOZ-LASTACK/X-MOZ-SNOOZE-TIME for Thunderbird components and DTSTAMP otherwise; `active` is a filter "
        "of `times`. Decision table and Event/Todo integration on the real objects are a labelled bounded stand-in.",
   note="Trusted: aware datetimes compare by instant, naive-vs-aware ordering raises TypeError (cross-checked natively); UTC property "
        "descriptors return None or an aware UTC datetime; tzinfo is None iff floating; comprehension rule for Alarms.active.",
   technique="contract-based deductive verification: AST->z3 VCs (pyvc) over integer instants, lemma over contracts; bounded stand-in"),
 "C14": dict(
   category="proof", design_ref="DESIGN.md section 8 C14",
   text="Alarms._add, _repeat (generator, REPEAT an unconstrained integer via the uniform-body loop rule), add_alarm, _alarm_time, the three "
        "list builders and `times` are symbolically executed; proved: anchor + TRIGGER with the date/midnight rule, first then REPEAT times "
        "spaced by DURATION exactly when both are set, classification absolute / start (RELATED START or absent, case-insensitive) / end, "
        "each list is the in-order concatenation of the per-alarm sequences wrapped in AlarmTime objects of that alarm, times = end ++ "
        "start ++ absolute, ComponentStartMissing / ComponentEndMissing exactly when the anchor is missing and such an alarm exists, and "
        "that no computing function writes to the Alarms object. Callers see _add/_repeat/_alarm_time through the contracts proved for "
        "them. A grid of real Event/Todo objects (API-built and re-parsed) is a labelled bounded stand-in.",
   note="Trusted: date arithmetic facts, to_datetime = local midnight, normalize_pytz as an instant-preserving uninterpreted map, Alarm "
        "descriptor contracts (C16), list builders checked for 0/1/2 alarms + frame (comprehension rule), local time zone unset in the "
        "deductive part; start/end anchors come from Event/Todo.start/end (C16).",
   technique="contract-based deductive verification: AST->z3 VCs (pyvc) with segment sequences and a uniform-body loop rule; modular callee contracts; bounded stand-in"),
 "C07": dict(
   category="proof", design_ref="DESIGN.md section 4 and section 8 C07", engine="fstc",
   text="escape_char, unescape_char, escape_string, unescape_string, vText.to_ical/from_ical and vCategory.to_ical/from_ical are extracted "
        "from the real source as finite-state transducers on every run; the round trips (codec, property value path, list codec, list "
        "through the property path) are decided equal to the documented normalisation for ALL strings of every length by a product "
        "construction, outside the regular classes of the listed known findings (inside which a witness is replayed on every run); the "
        "output shape of escape_char (no LF, no unescaped ; or ,) is a regular inclusion. A shortest counterexample is replayed on the "
        "real functions. Real objects end to end over the critical alphabet are a labelled bounded stand-in.",
   note="Trusted: the fstc decision procedure (self-tested against CPython; extracted transducers compared with the real functions on all "
        "strings up to length 3/4 each run), the alphabet abstraction, UTF-8 encode/decode as identity at text level, the value-path "
        "composition lemma (C05/C06). Known findings C07-F1..F6 are genuine defects recorded in known_findings.json.",
   technique="contract-based deductive verification: strongest postconditions as rational transducers extracted from the source, equivalence/inclusion decided by fstc; bounded stand-in"),
 "C06": dict(
   category="proof", design_ref="DESIGN.md section 4 and section 8 C06", engine="fstc",
   text="foldline is turned into a finite transducer over character-width classes by executing its real loop body (compiled from the "
        "AST) on every reachable loop state and character class and by reading the fast path's slice expression; decided for ALL "
        "LF-free lines of every length and every alignment: each physical line has at most 75 octets, each continuation line starts "
        "with the added space, uFOLD.sub('', foldline(x)) == x, and Contentlines.from_ical(to_ical(lines)) == lines + [''] (regex "
        "transducers compiled from the patterns in the source). Counterexamples are shortest inputs replayed on the real functions. "
        "Alignment enumeration on the real functions is a labelled bounded stand-in.",
   note="Trusted: fstc; character abstraction (body depends on a character only through its UTF-8 length, checked by AST scan); the "
        "transducer is compared with the real foldline on all strings <= 4 and seeded long strings each run; regex transducer vs re.sub "
        "exhaustively to length 6/7. limit/fold_sep are the defaults read from the signature (75, CRLF+space).",
   technique="contract-based deductive verification: semantic loop quotient of the real loop + regular inclusion/equivalence decided by fstc; bounded stand-in"),
 "C05": dict(
   category="proof", design_ref="DESIGN.md section 4 and section 8 C05", engine="fstc",
   text="Contentline.from_parts and Contentline.parts are composed at text level from pieces extracted from the real source (dquote, "
        "escape_string, unescape_string, regexes) and from certified loop quotients of the real scanning loops (parts, q_split: the loop "
        "body is symbolically executed by pyvc and every path condition atom must be an abstract predicate). Decided for ALL triples "
        "(name, parameter map, value text): parts inverts from_parts outside the listed known classes; NO INJECTION: wherever parts "
        "accepts the line the property name and the sequence of parameter names are exactly the intended ones, for every parameter value "
        "over the whole alphabet (quotes, control character, backslash, ; : , % ...) and every value text; LF is refused. Tree-level "
        "structure on real objects is a labelled bounded stand-in.",
   note="Trusted: fstc; the transcribed glue of from_parts/parts/Parameters.to_ical/from_ical (guarded by shape checks and compared with the "
        "real methods each run); alphabet abstraction; parameter values of the round-trip lemma are free of double quotes and control "
        "characters (C08's precondition). Known findings C05-F1/F2 (placeholder scheme rewrites %2C etc.).",
   technique="contract-based deductive verification: rational transducers extracted from the source + certified loop quotients, equivalence decided by fstc; bounded stand-in"),
 "C08": dict(
   category="proof", design_ref="DESIGN.md section 4 and section 8 C08", engine="fstc",
   text="dquote is extracted from the source; q_split's real loop is quotiented (certified by pyvc symbolic execution of its body) for the "
        "three call sites and proved equal to the quote-aware split specification; decided for ALL strings: dquote output has quotes only "
        "at its ends, every value containing , ; : is quoted, value lists and whole parameter texts survive to_ical -> from_ical (order and "
        "arity kept, empty values included) for values free of double quotes and control characters, alone and inside a content line "
        "(outside the listed known class). Real Parameters / Contentline / Event routes are a labelled bounded stand-in.",
   note="Trusted: fstc; transcribed per-item processing of Parameters.from_ical (shape checks + exhaustive comparison with the real method; a "
        "disagreement makes the dependent obligations undecided); names compared after upper-casing (C17). Known finding C08-F1.",
   technique="contract-based deductive verification: rational transducers + certified loop quotient of q_split, decided by fstc; bounded stand-in"),
 "C18": dict(
   category="proof", design_ref="DESIGN.md section 8 C18",
   text="Component.property_items is proved against its recursive contract (BEGIN, every entry of every key in key order with list "
        "entries separately, the items of every subcomponent, END) by one-level unfolding with symbolic numbers of keys, list entries and "
        "subcomponents; get_used_tzids is exactly the set of TZID parameters of all those values minus None; get_missing_tzids discards the "
        "tz_name of every VTIMEZONE found by walk and can raise nothing; Timezone.from_tzid builds the component for the REQUESTED id; "
        "add_missing_timezones appends exactly one from_tzid(t) per missing id the provider knows. Real calendars with used / unused / "
        "unknown / alias zone ids and repeated calls are a labelled bounded stand-in.",
   note="Trusted: induction over tree height through recursive contracts; keys()/sorted_keys() list present keys (C17); sets compared as "
        "operation logs; tz_name and the provider (tzp.timezone, from_tzinfo) are opaque in the deductive part.",
   technique="contract-based deductive verification: AST->z3 VCs (pyvc) with recursive contracts and segment sequences; bounded stand-in"),
 "C20": dict(
   category="other", design_ref="DESIGN.md section 8 C20",
   text="Component._walk is proved against its recursive contract (self first iff name/predicate match, then the walks of the "
        "subcomponents in order: pre-order, each nested component exactly once) for a symbolic number of subcomponents; walk upper-cases "
        "the requested name; events/todos/timezones/standard/daylight are walk with the fixed name and the always-true predicate; _walk "
        "writes nothing; __eq__ answers False and never fails for non-components, and for two components a different number of "
        "subcomponents or unequal properties (CaselessDict.__eq__: C17) answers False before the matching loop is reached. The algebra of equality and the copy protocols on "
        "random real trees are a labelled bounded stand-in (known finding C20-F1: kind is not compared). 'other' because half of the "
        "statement - the equality algebra (reflexive, symmetric, order- and case-insensitive, multiset-sensitive) and the copy protocols - "
        "is only explored: the greedy multiset matching of __eq__ needs == to be an equivalence on the subcomponents (induction on height "
        "plus a counting argument over a list with deletion), which the engine cannot carry.",
   note="Trusted: induction over tree height; the select predicate is pure; the loop rule with accumulator (vc/pyvc/seqs.py). Bounded only: "
        "reflexive/symmetric/permutation-insensitive/value-sensitive equality, deepcopy/pickle/serialise-and-parse copies.",
   technique="contract-based deductive verification: AST->z3 VCs (pyvc) with a recursive contract; bounded stand-in"),
 "C10": dict(
   category="proof", design_ref="DESIGN.md section 8 C10",
   text="Order: property_items is proved (pyvc, recursive contract) to emit BEGIN, the values in sorted_keys() / keys() order with list "
        "entries and subcomponents in insertion order, END of the same name, for both values of `sorted` (a method called on self is checked "
        "with the implementation of every overriding subclass of the repository); canonsort_keys is proved (list-algebra VCs on the real body, "
        "all inputs) to return a permutation of the keys that does not depend on their input order; sorted_keys / Parameters.to_ical / "
        "content_lines are matched against their canonical shapes, which with the assumed contract of sorted() makes the output a function "
        "of the key set. Purity: a static modifies-nothing analysis of every function reachable from "
        "Component.to_ical (52 functions incl. every to_ical) shows no write to, and no mutating call on, anything reachable from self; "
        "determinism: none of them calls hash/id/random/time or iterates a set unsorted. Permuted insertion histories, double "
        "serialisation with state snapshots and runs under different PYTHONHASHSEED are a labelled bounded stand-in.",
   note="Trusted: sorted() contract, dict insertion order, the conservative static frame analysis and its name-based call graph, the shape "
        "rules (a function that leaves its shape is undecided, never proved). Balanced nesting assumes no property is named BEGIN/END.",
   technique="contract-based deductive verification: pyvc order obligations, list-algebra VCs for canonsort_keys, static frame (modifies {}) and determinism analysis over the real AST; bounded stand-in"),
 "C03": dict(
   category="proof", design_ref="DESIGN.md section 8 C03",
   text="vDate, vDatetime (naive and UTC), vTime, vUTCOffset and vDuration to_ical/from_ical are symbolically executed with strings of "
        "known shape (fixed-width fields as digit arithmetic, numerals as tokens, DURATION_REGEX read from the source and matched on "
        "tokens): proved for all values at once that decoding the encoded text gives the value back, that the text has the RFC grammar, "
        "and that every grammar-shaped text decodes to the value the RFC assigns or raises ValueError when it denotes none; "
        "vDDDTypes.from_ical routes each of 29 grammar shapes to its decoder and vPeriod.from_ical sends both halves through it. BOOLEAN, "
        "weekday, frequency, month are enumerated completely. INTEGER/FLOAT/BINARY/GEO/URI/CAL-ADDRESS/PERIOD values are a labelled "
        "bounded stand-in.",
   note="Trusted: date/time constructor contracts (validity predicate cross-checked), strftime('%H%M%S'), int() on ASCII digits, "
        "tzid_from_dt / localize_utc contracts, the shape-string semantics of vc/pyvc/chars.py. Known findings C03-F1/F3 (float exponent "
        "form), C03-F2 (TIME with Z decoded naive).",
   technique="contract-based deductive verification: AST->z3 VCs (pyvc) over shaped strings and calendar fields; fin for finite types; bounded stand-in"),
 "C19": dict(
   category="other", design_ref="DESIGN.md section 8 C19", engine="fstc",
   text="Static/finite obligations on the real source: canonical_order (computed from the real class body, also when derived from another "
        "table) starts RSCALE, FREQ and keeps the RFC part order, the types table maps every RFC part to its value class, to_ical / from_ical / parse_type have the join / split shapes; the text-structure lemma "
        "(split(';'), split('='), split(',') invert the joins for separator-free atoms, parts without exactly one '=' are skipped, a "
        "trailing ';' is tolerated) is decided by fstc for ALL strings; every finite part value (weekdays with ordinals, frequencies, "
        "months incl. leap, SKIP, ints -366..366) is enumerated: separator-free and stable. The per-part dispatch inside to_ical/from_ical, "
        "the rule grid and the occurrence sets computed by dateutil are a labelled bounded stand-in - hence level 'other', not proof.",
   note="Trusted: canonsort (C10), the transcribed loop structure of vRecur.to_ical/from_ical (shape checks + comparison with the real "
        "method), dateutil.rrule as the standard expander (external).",
   technique="contract-based deductive verification where it applies (fstc text lemma, fin tables/finite codecs, shape rules); bounded stand-in for dispatch and the external expander"),
 "C04": dict(
   category="other", design_ref="DESIGN.md section 8 C04",
   text="Raises contracts: a static may-raise analysis over the real AST (callees analysed recursively, built-ins/zoneinfo/pytz/dateutil "
        "from an assumed table) shows that every value class's from_ical, Contentline.parts, Parameters.from_ical and "
        "Contentlines.from_ical can only raise ValueError and that the provider lookups raise nothing; a candidate outside the allowed "
        "classes counts only after a native input confirms it. Isolation: one iteration of the real Component.from_ical loop (property "
        "branch) is symbolically executed by pyvc with those contracts: in a lenient component a ValueError never escapes, exactly one "
        "error is recorded and nothing else is added; in a strict one it is re-raised. Caching a VTIMEZONE converts failures into "
        "ValueError (shape). Totality and time of the whole pipeline on hostile input under both providers is a labelled bounded "
        "stand-in through the project's own oracle - a contract on one function cannot decide termination of the whole parse, hence 'other'.",
   note="Trusted: the assumed raises table (entries used are listed in evidence), guard recognition of the analysis, type "
        "preconditions (decoders receive str), one loop iteration generalises (the loop carries no state between lines other than the "
        "stack).",
   technique="contract-based deductive verification: static raises-contracts (may-raise analysis) + pyvc isolation obligations on the real loop body; bounded fuzz stand-in"),
 "C09": dict(
   category="other", design_ref="DESIGN.md section 8 C09",
   text="Line level, decided by fstc for ALL well-formed texts: the transducer of the real Contentlines.from_ical (uFOLD / NEWLINE regexes "
        "compiled from the source, exact statement shape) gives the same list of lines when every CRLF is replaced by LF, when CRLF+space or "
        "CRLF+tab folds are inserted at ANY set of positions inside lines (a non-deterministic rewrite: all choices are proved to agree), "
        "and when blank lines are appended; to_unicode decodes bytes with utf-8-sig (shape). Name case: a static relational obligation on "
        "the real Component.from_ical loop - the raw name is never compared or used as a key unless upper-cased or handed to a caseless "
        "container; candidates count only after native confirmation. That equal line lists and equal branches give equal trees and "
        "equal utcoffsets is exercised by a labelled bounded stand-in: all fixtures x rewrites x random compositions, both providers, "
        "fresh timezone cache per parse.",
   note="Trusted: vc/fstc, the caseless containers' contracts (C17), the codec utf-8-sig, the syntactic scope of the taint scan (the loop, "
        "not callees). 'other': the tree-level conclusion composes line-level proofs with a bounded stand-in.",
   technique="contract-based deductive verification: fstc equivalence of the real line splitter under LF / arbitrary refolding / blank lines, static case-insensitivity obligation on the parse loop; bounded metamorphic stand-in"),
 "C02": dict(
   category="other", design_ref="DESIGN.md section 8 C02",
   text="Tables (fin, complete): every RFC 5545 property name is mapped (TypesFactory.types_map / registrations read from the AST) to a "
        "class that decodes the RFC's value type (spec/rfc5545_properties.json), and every permitted alternative value type is announced "
        "by VALUE (a lemma over the constructor contracts). pyvc on the real bodies: vDDDTypes.__init__ (ValueError iff not a date/time "
        "value; whole params view = VALUE by kind + TZID of a zoned non-UTC value, periods by their start - taken from the property "
        "statement), vDDDLists.__init__ with an inductive loop invariant chosen from templates (any length: dts[j] = vDDDTypes(seq[j]); "
        "common VALUE; TZID iff some element is zoned; every zoned element carries its own TZID under the one-zone precondition - without it "
        "refuted: known finding C02-F1), vPeriod.__init__ (only ValueError, VALUE=PERIOD, TZID of a non-UTC start, explicit end in the "
        "start's zone), tzid_from_dt, Component._encode (typed values kept, class by property name, TRIGGER date-time tagged, "
        "parameters merged step by step), Component.add (UTC forcing; stored values = old ++ new in order, lists as z3 sequences; "
        "frame), property setters (stored parameters derive from the new value only). Shape refutations count only after the same "
        "contract fails on the real objects. The API grid (names x kinds x parameters x nesting, both providers) is a labelled bounded stand-in.",
   note="Trusted: pyvc + z3, the induction meta-rule for the loop invariant, Parameters(mapping) as a fold of __setitem__ (cross-checked), "
        "tzid_from_tzinfo returning None or a non-empty str, CPython date arithmetic failure modes, the RFC transcription. 'other': "
        "carrying the contracts through serialiser and parser to equal decoded values composes C03/C05/C06/C08 and is exercised by the grid.",
   technique="contract-based deductive verification: pyvc VCs from the real constructors / _encode / add (z3, loop invariant templates, z3 sequences) + finite table lemmas; bounded API grid stand-in"),
 "C11": dict(
   category="other", design_ref="DESIGN.md section 8 C11",
   text="pyvc / chars on the real bodies: tzid_from_tzinfo ('UTC' when among the ids, None for none, else the first); vDatetime: for "
        "every datetime exactly one of floating / Z / TZID=id, with the written digits equal to the wall fields (the TZID derived in "
        "__init__ and the Z written by to_ical agree); vDatetime.from_ical(text, tz) = the text's wall fields localised in tzp.timezone(tz) "
        "or the given tzinfo; zoned write-then-read returns the same wall fields in the zone named by the TZID; vPeriod / vDDDTypes / "
        "vDDDLists.from_ical hand the time zone to every part; the real parse-loop body, run symbolically per property name (upper and "
        "lower case), hands params['TZID'] to the decoder for FREEBUSY and every date-time valued name and to no other; TZP.timezone / "
        "localize against their contracts; the UTC descriptor's setter stores localize_utc(value), its getter returns it; TZID rules of "
        "single values, lists and periods are the C02 V1-V3 obligations. fin (complete for the installed tz database, both providers): "
        "every zone key needs no cleaning, is found, and is identified by its key. Offsets are the providers': round trips at every "
        "transition of the zones are a labelled bounded stand-in.",
   note="Trusted: pyvc + chars + z3; datetime.replace / pytz localize keep wall fields, astimezone keeps the instant (CPython / pytz); "
        "providers' localize bodies by exact statement shape; the tz database installed here. 'other': the offset clause is the provider's "
        "behaviour and is explored, not proved.",
   technique="contract-based deductive verification: pyvc/chars VCs on the real tzid / vDatetime / from_ical / parse-loop / TZP / descriptor bodies (z3) + finite lookup lemma over all zone keys; bounded zone-transition stand-in"),
 "C12": dict(
   category="other", design_ref="DESIGN.md section 8 C12",
   text="pyvc + seqs on the real tail of Timezone.get_transitions (sort statement with its real key lambda, onset comprehension), for any "
        "number of transitions: transition_times[k] = local[k] - TZOFFSETFROM[k] and the times are ascending (required by pytz's bisect; "
        "this obligation found the local-time sort, repaired by a fix commit); one generic iteration of the info loop (inner searches "
        "summarised soundly): every transition reports its TZOFFSETTO and its own name, a STANDARD transition reports zero dst. fin: the offset rounding of _extract_offsets is the identity "
        "on whole minutes (all 86400 values). Statement shapes: observance kind / offsets carried by every transition, RRULE expanded in "
        "the zone of TZOFFSETFROM, PYTZ.create_timezone hands the transitions over unchanged, ZONEINFO hands the component text to tzical, "
        "to_tz(lookup_tzid=False) builds from this component. Cache (pyvc on TZP.cache_timezone_component ; TZP.timezone): a new custom "
        "TZID resolves to the zone built from its own definition; caching changes the zone of no other TZID; 'whatever was parsed before' is "
        "refuted (first definition wins: known finding C12-F3). Each provider against an RFC 5545 oracle with its own recurrence "
        "expansion at every onset -1 s / 0 / +1 s and midpoints, and calendar histories, are a labelled bounded stand-in "
        "(dateutil's tzical deviations: C12-F1/F2; definition after use: C12-F4).",
   note="Trusted: pyvc + seqs + z3; list.sort orders by the key; datetime arithmetic (contracts/dt.py); pytz DstTzInfo's bisect contract "
        "(stated, with G.* it gives the RFC rule for the pytz provider); dateutil rrulestr / tzical external. 'other': the zoneinfo path is "
        "interpreted by dateutil and only explored.",
   technique="contract-based deductive verification: pyvc/seqs VCs on the real get_transitions tail and cache functions (z3), finite rounding lemma, statement-shape contracts; bounded RFC-oracle stand-in"),
 "C13": dict(
   category="other", design_ref="DESIGN.md section 8 C13",
   text="What contracts decide for EVERY tzinfo object (pyvc on the real search block of Timezone.from_tzinfo, step list read from the "
        "class body and unrolled, inner while by an invariant derived from its own condition, tzinfo readings / + / normalize "
        "uninterpreted, both arithmetic models): after a round the reading (utcoffset, tzname, dst) at `end` is the observance's, one "
        "finest step later it differs (boundary exact to the second), the next round starts exactly there, and every interval is recorded "
        "under offsets, name and kind of its start; construction loop and from_tzid by statement shape (each observance gets DTSTART, "
        "TZOFFSETFROM, TZOFFSETTO, TZNAME; TZID). NOT decided by any contract within reach: that nothing changes between two probes "
        "(false for real zones: C13-F2) and what the recorded wall times mean (C13-F1, pinned by the project's tests) - so the property-level "
        "comparison of the generated component with the source zone (RFC onset rule and to_tz, every transition -1 s / 0 / +1 s, "
        "midpoints, 6-hour grid; all zones in the thorough tier) is a labelled bounded stand-in and never counted as proved.",
   note="Trusted: pyvc + z3, the while rule (entry / preservation VCs), uninterpreted tzinfo behaviour. The deductive obligations bound the "
        "search's internal correctness; agreement with the source zone is explored only.",
   technique="contract-based deductive verification of the search block (pyvc VCs with a derived while-invariant, z3) + statement-shape contracts; property-level agreement with the source zone: bounded stand-in (exploration)"),
 "C01": dict(
   category="other", design_ref="DESIGN.md section 8 C01",
   text="Composition of contracts that are all re-checked in this run: (L1) lines round trip and exact unfolding, (L2) content-line split / "
        "join, (L3) typed value codecs, (L4) serialisation order - the obligations of C06, C05, C03, C10 run on the current tree - plus, "
        "new here and decided by fstc for ALL strings: with D = what parsing does to a TEXT value text and Enc = what serialising does, "
        "D;Enc;D == D (also for CATEGORIES lists), and for parameters from_ical;to_ical;from_ical == from_ical; (L5) pyvc on the real "
        "line-loop body: BEGIN pushes exactly one new component named by the upper-cased value, END pops the innermost one and attaches "
        "it to its parent or completes it, END without BEGIN is a ValueError; component classes carry their registration name; content_lines "
        "is one from_parts line per property item. The TEXT stability obligation refuted the property for value texts with two or more "
        "consecutive backslashes or %5C (known findings C01-F1/F2, same cause as C07-F2) and is proved on every other text. The "
        "induction over the line list is the meta-argument; the whole pipeline over every fixture and generated calendars (tree after each "
        "pass, bytes after pass 2 / 3, first-parse exactness on generated well-formed texts) is a labelled bounded stand-in.",
   note="Trusted: fstc + pyvc + z3; the imported lemmas' own trusted bases; the composition argument. 'other': per-layer proofs, tree-level "
        "conclusion by composition and bounded exploration.",
   technique="contract-based deductive verification: fstc stability equalities over the extracted transducers (all strings) + pyvc obligations on the real BEGIN/END loop branches + imported layer lemmas re-run on the tree; bounded pipeline stand-in"),
}
NA_REASON = "check not built yet (build round in progress; DESIGN.md section 8 describes the planned contracts)"

def main():
    m = {"version": 1, "setup_cmd": "./setup.sh",
         "hooks": {"guard": "ICALENDAR_VERIF",
                   "enable": "none needed: contracts are sidecar files under /verif/contracts and /verif/props; the verified text is re-read from /repo/src on every run; the guard name is reserved and unused",
                   "baseline_off_cmd": "cd /repo && /venv/bin/python -m pytest -ra -q -p no:cacheprovider --timeout=900 --continue-on-collection-errors",
                   "source_commits": [], "add_only": True},
         "engines": [
             {"name": "pyvc", "path": "vc/pyvc", "serves_properties": sorted(CHECKS), "kind_free_text": "symbolic executor over the real functions' AST producing verification conditions, discharged by z3 5.1.0 (cvc5 for z3 unknowns)"},
             {"name": "fstc", "path": "vc/fstc", "serves_properties": ["C05", "C06", "C07", "C08", "C19"], "kind_free_text": "decision procedure for rational string functions (functional transducers): equivalence, image inclusion, shortest counterexamples"},
             {"name": "fin", "path": "vc/fin", "serves_properties": sorted(CHECKS), "kind_free_text": "exhaustive evaluation over finite domains; cross-checks of assumed contracts against CPython"},
         ],
         "checks": [], "notes": "see DESIGN.md; known findings in known_findings.json", "not_applicable": []}
    for p in props:
        pid = p["id"]
        c = CHECKS.get(pid)
        if c is None:
            m["not_applicable"].append({"property_id": pid, "reason": NA_REASON})
            continue
        m["checks"].append({
            "property_id": pid, "quick_cmd": f"./check {pid} --tier quick", "thorough_cmd": f"./check {pid} --tier thorough",
            "evidence_file": f"evidence/{pid}.json", "replay_cmd_template": f"./check {pid} --replay {{path}}",
            "engine": c.get("engine", "pyvc"),
            "level_claimed": {"category": c["category"], "text": c["text"], "design_ref": c["design_ref"]},
            "level_note": c["note"], "technique": c["technique"]})
    json.dump(m, open(os.path.join(ROOT, "MANIFEST.json"), "w"), indent=1)
    import jsonschema
    jsonschema.validate(m, json.load(open("/root/.vp/MANIFEST.schema.json")))
    print("MANIFEST.json written:", len(m["checks"]), "checks,", len(m["not_applicable"]), "not applicable")
main()
