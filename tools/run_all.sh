#!/bin/sh
# tools/run_all.sh [quick|thorough] [P] [seed]: run every registered check of the tier in parallel, print the summary lines.
# With a seed other than 0 the evidence goes to a scratch directory (the committed evidence comes from seed 0).
tier=${1:-quick}; P=${2:-6}; seed=${3:-0}
cd /verif
if [ "$seed" != "0" ]; then ev="VERIF_EVIDENCE_DIR=/tmp/runall_ev_$seed"; else ev=""; fi
for i in 01 02 03 04 05 06 07 08 09 10 11 12 13 14 15 16 17 18 19 20; do echo C$i; done | \
  xargs -P $P -I{} sh -c "VERIF_SEED=$seed $ev ./check {} --tier $tier > /tmp/runall_{}_${tier}_$seed.log 2>&1; echo \"{} exit=\$? \$(grep -E '^\[C' /tmp/runall_{}_${tier}_$seed.log | head -1)\"" | sort
rm -rf /tmp/runall_ev_$seed
