#!/bin/sh
# tools/run_all.sh [quick|thorough] [P]: run every registered check of the tier in parallel, print the summary lines
tier=${1:-quick}; P=${2:-6}
cd /verif
for i in 01 02 03 04 05 06 07 08 09 10 11 12 13 14 15 16 17 18 19 20; do echo C$i; done | \
  xargs -P $P -I{} sh -c "./check {} --tier $tier > /tmp/runall_{}_$tier.log 2>&1; echo \"{} exit=\$? \$(grep -E '^\[C' /tmp/runall_{}_$tier.log | head -1)\"" | sort
