#!/usr/bin/env python3
"""For every 'fix:' commit of /repo: re-introduce the defect (reverse patch on the current HEAD, in a scratch worktree outside
/repo and /verif) and run the checks of the properties the fix belongs to.  Writes seeded/fix_reverts.json:
which check reports the returned defect, and how (deductive obligation / bounded stand-in / undecided only)."""
import json, os, subprocess, sys, re

MAP = {
    "781bbc2": ["C18"], "894886a": ["C09"], "179f5f6": ["C20"], "3594c87": ["C04", "C03"], "078c5fc": ["C04"], "527e966": ["C15"], "17f6bfd": ["C04"], "5c9fa06": ["C14", "C15"],
    "cb7a3a9": ["C10"], "e443fca": ["C17"], "85e61d9": ["C16"], "959abed": ["C16"], "629c71d": ["C14"], "382b706": ["C05", "C08"],
    "749b724": ["C04"], "a64e98b": ["C04", "C02"], "2d5519c": ["C04"], "69f22ac": ["C02"], "30c2575": ["C02"], "8b06d10": ["C04", "C02"],
    "7235ed8": ["C12"], "ec77ddf": ["C13"], "3549ece": ["C12", "C13"], "52b7b3d": ["C02", "C11"], "3dcf993": ["C02"], "87e716a": ["C02"], "1400d79": ["C02"], "0cb5afd": ["C02"], "3c8b87d": ["C02"],
}

def sh(cmd, cwd=None, env=None, timeout=3600):
    e = dict(os.environ); e.update(env or {})
    p = subprocess.run(cmd, shell=True, cwd=cwd, env=e, capture_output=True, text=True, timeout=timeout)
    return p.returncode, p.stdout + p.stderr

def main():
    only = sys.argv[1:]
    rc, log = sh("git -C /repo log --format='%h %s'")
    fixes = [l.split(" ", 1) for l in log.splitlines() if l.split(" ", 1)[1].startswith("fix:")]
    out_path = "/verif/seeded/fix_reverts.json"
    results = json.load(open(out_path)) if os.path.exists(out_path) else {}
    for h, subject in fixes:
        if only and h not in only:
            continue
        checks = MAP.get(h, [])
        wt = f"/tmp/fixrev_{h}.{os.getpid()}"
        sh(f"git -C /repo worktree add -q --detach {wt} HEAD")
        try:
            rc, o = sh(f"git diff {h} {h}^ | git apply -3 -", cwd=wt)
            manual = f"/verif/seeded/fix_reverts/{h}.diff"
            if rc != 0 or "with conflicts" in o:
                # later fixes touch the same lines: a hand-made patch that re-introduces exactly this defect on the current head
                sh("git reset -q --hard HEAD", cwd=wt)
                rc2, o2 = sh(f"git apply {manual}", cwd=wt) if os.path.exists(manual) else (1, "")
                if rc2 != 0:
                    results[h] = {"subject": subject, "applies": False, "note": "the reverse patch conflicts with later fixes on the same lines"}
                    continue
            res = {}
            for c in checks:
                rc, o = sh(f"/verif/check {c}", env={"VERIF_REPO": wt, "VERIF_EVIDENCE_DIR": f"/tmp/fixrev_ev.{os.getpid()}"})
                lines = [l for l in o.splitlines() if l.startswith("VIOLATION") or l.startswith(f"[{c}]")]
                viol = [l for l in lines if l.startswith("VIOLATION")]
                how = "no report"
                if viol:
                    ded = [l for l in viol if ".bnd." not in l]
                    how = "deductive obligation refuted" if ded else "bounded stand-in"
                    if ded and len(ded) < len(viol):
                        how = "deductive obligation refuted + bounded stand-in"
                elif any("undecided=" in l and "undecided=0" not in l for l in lines):
                    how = "undecided only (exit 2)"
                res[c] = {"exit": rc, "how": how, "violations": [re.sub(r"-[0-9a-f]{8}\.json", "", v.split("replay=replays/")[-1]) for v in viol][:4]}
            results[h] = {"subject": subject, "applies": True, "checks": res}
            print(h, subject[:60], {c: r["how"] for c, r in res.items()}, flush=True)
        finally:
            sh(f"git -C /repo worktree remove --force {wt}")
            sh(f"rm -rf /tmp/fixrev_ev.{os.getpid()}")
        json.dump(results, open(out_path, "w"), indent=1)
    json.dump(results, open(out_path, "w"), indent=1)

if __name__ == "__main__":
    main()
