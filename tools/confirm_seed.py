#!/usr/bin/env python3
"""Confirm a seeded change in a scratch worktree and store it under /verif/seeded/<id>/.

usage: confirm_seed.py <worktree> <out-subdir> ...
For each candidate: clean tree -> demo must PASS; apply patch -> demo must FAIL, suite must show only the
3 pre-existing failures; revert.  Only then is it copied to /verif/seeded/<name>/ with what was run.
"""
import json, os, shutil, subprocess, sys, re

KNOWN = {"test_we_can_identify_dateutil_timezones[Asia/Manila]", "test_we_can_identify_dateutil_timezones[America/Coyhaique]",
         "test_can_identify_dateutil[Asia/Manila]"}

def sh(cmd, cwd, env=None, timeout=1200):
    e = dict(os.environ); e.update(env or {})
    p = subprocess.run(cmd, shell=True, cwd=cwd, env=e, capture_output=True, text=True, timeout=timeout)
    return p.returncode, p.stdout + p.stderr

def main():
    wt = sys.argv[1]
    env = {"PYTHONPATH": f"{wt}/src", "PYTHONDONTWRITEBYTECODE": "1"}
    for sub in sys.argv[2:]:
        d = os.path.join(wt, "out", sub)
        name = sub
        res = {"name": name}
        sh("git checkout -- src", wt)
        rc0, out0 = sh(f"/venv/bin/python {d}/demo.py", wt, env)
        res["demo_clean_rc"] = rc0
        rc, out = sh(f"git apply {d}/patch.diff", wt)
        res["apply_rc"] = rc
        rc1, out1 = sh(f"/venv/bin/python {d}/demo.py", wt, env)
        res["demo_patched_rc"] = rc1
        res["demo_patched_tail"] = out1[-400:]
        rcs, outs = sh("/venv/bin/python -m pytest -q -p no:cacheprovider --timeout=900 src/icalendar 2>&1 | tail -8", wt, env)
        failed = set(re.findall(r"FAILED \S+::(\S+)", outs))
        res["suite_tail"] = outs.strip().splitlines()[-1] if outs.strip() else ""
        res["suite_new_failures"] = sorted(failed - KNOWN)
        sh("git checkout -- src", wt)
        ok = rc0 == 0 and rc == 0 and rc1 != 0 and not res["suite_new_failures"] and "passed" in res["suite_tail"]
        res["confirmed"] = ok
        print(json.dumps(res))
        if ok:
            dst = f"/verif/seeded/{name}"
            os.makedirs(dst, exist_ok=True)
            shutil.copy(f"{d}/patch.diff", dst); shutil.copy(f"{d}/demo.py", dst)
            meta = json.load(open(f"{d}/meta.json"))
            meta["confirmation"] = {"ran": ["demo.py on clean tree (exit 0)", "git apply patch.diff; demo.py (exit %d)" % rc1,
                                            "pytest src/icalendar with the patch: " + res["suite_tail"]],
                                    "base_commit": sh("git rev-parse HEAD", wt)[1].strip()}
            json.dump(meta, open(f"{dst}/meta.json", "w"), indent=1)

main()
